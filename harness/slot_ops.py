"""C03 / C05 / C06 / C19 on the optional, required and unordered SLOTS of every model (node-level API).

slot_<doc>_<facet>   model ordinal (every tree model reachable in scaffold document <doc>, any depth) x slot ordinal (every
                     required_node_property / optional_node_property / unordered_node_property of the model's class, found by
                     introspection of the descriptor objects) x donor choice (None for optional slots; free-standing deep
                     copies of the nodes found in the same slot of the same class anywhere in the two scaffold documents).
    facet window  (C03)  characters outside the parent unchanged, every sibling keeps its exact text and identity, only
                         tokens of the old / new child and separators directly adjacent to it disappear / appear
    facet tree    (C05)  tree invariant of the whole document after the assignment; the new child reads back by identity
    facet reparse (C06)  the printed document parses again with the same directives / fields / values
    facet refuse  (C19)  the donor is still attached to ANOTHER document: the assignment must be refused and both
                         documents must be exactly what they were (text, token identities, identity-level tree dump)

Document B deliberately contains the values that are falsy in Python (numbers evaluating to zero, empty strings): the
generated pivot chains are written as `(self._x and self._x.last_token) or ...`.

The selectors are symbolic ints case-split by the solver (CrossHair path tree exhausted = every configuration decided);
after the split the real code runs on concrete objects.
"""
import copy

from symx.env import NoTracing, check, Fail, pick, R, set_load_factor, known_finding
from symx import docenv
from symx.docenv import text_of, Snapshot
from autobean_refactor import models
from autobean_refactor.models.internal import properties as P

M = models

DOC_A = '''option "title" "x" ; ic
include "a.bean"
plugin "p" "cfg"
pushtag #t
poptag #t
pushmeta kk: 1
popmeta kk:
2000-01-01 balance Assets:A 1+2 ~ 0.01 USD ; ic
  kk: "v"
2000-01-01 close Assets:A
  kk: 1
  ; c
  k2: TRUE
2000-01-01 commodity USD
2000-01-01 pad Assets:A Equity:B
2000-01-01 event "a" "b"
2000-01-01 query "a" "b"
2000-01-01 price USD 1.5 EUR
2000-01-01 note Assets:A "n" #a ^b #c
2000-01-01 document Assets:A "p" ^l
2000-01-01 open Assets:A USD, EUR "STRICT"
2000-01-01 custom "t" "s" 2000-01-02 TRUE 1 USD 2 Assets:A

; lead
2000-01-01 * "p" "n" #t ^l ; ic
  kk: 1
  ; plead
  ! Assets:A  1 USD {2 EUR, 2000-01-02, "lb", *} @ 3 GBP ; pic
    ; mlead
    mm: "x" ; mic
    ; mtrail
  Assets:B  -1 USD {{4 # 5 CHF}} @@ 4 CHF
  ; ptrail
  Assets:C
; trail
'''

DOC_B = '''; olead
option  "other"\t"y"
; otrail

include "b.bean" ; inc
plugin "q"
pushtag #u ; c
poptag #u
pushmeta zz:
popmeta zz: ; pc
2001-02-03  balance  Equity:B   5   EUR
; blead
2001-02-03 close Equity:B ; cc
; ctrail
2001-02-03 commodity EUR ; x
  zz: 2
2001-02-03 pad Equity:B Assets:A ; y
2001-02-03 event "c" "d" ; z
2001-02-03 query "c" "d" ; w
2001-02-03 price EUR 2+3 USD ; v
2001-02-03 note Equity:B "m" ; u
2001-02-03 document Equity:B "q" ; t
2001-02-03 open Equity:B ; s
2001-02-03 custom "u" ; r
2001-02-03 txn
  Equity:B  @ EUR
  Equity:C  2 * 3  {1 # CAD} @@
    ; mlead2
    zz: Assets:Q
  ? Equity:D  CAD {} @
  Equity:E  7 {"only"}
  Equity:F  7 CAD {# 9 CAD}
  Equity:G  0.00 USD
  Equity:H  0 {0 # 5 USD} @ 0 USD
    zero: 0
2001-02-04 balance Equity:B  0 ~ 0 EUR
2001-02-05 *  ""  ""
  Equity:I  0
'''

# Document C: the same constructs written as compactly as the grammar allows (no blank between a child and its left neighbour):
# removing or replacing a child must not take a glued neighbour with it.
DOC_C = '''plugin "p""cfg"
pushmeta kk:1
2000-01-01 open Assets:A USD,EUR"STRICT";c
2000-01-01 balance Assets:A 1~0.01 USD;c
2000-01-01 note Assets:A "n"#a^b
2000-01-01 *"payee""narr"#tag^link;ic
  kk:"v"
  Assets:A  1USD{2EUR}@3GBP;pic
    reason:"moved";mic
  Assets:B  -1 USD@@4 CHF
  Assets:C  @1.5 USD
'''

DOCS = {'A': DOC_A, 'B': DOC_B, 'C': DOC_C}
SLOT_DESCRIPTORS = (P.required_node_property, P.optional_node_property, P.unordered_node_property)


def _desc(cls, name):
    for k in cls.__mro__:
        if name in vars(k):
            return vars(k)[name]
    return None


_SLOTS = {}


# Transaction.raw_string0..2 are the documented payee/narration dependency (one string is the narration, two are payee + narration,
# whatever slot they were written to): decided by the payee_* cells of C09, not by the generic slot rule.
DEPENDENT = {('Transaction', 'raw_string0'), ('Transaction', 'raw_string1'), ('Transaction', 'raw_string2')}


def slots_of(cls):
    r = _SLOTS.get(cls)
    if r is None:
        r = [(n, _desc(cls, n)) for n in sorted(dir(cls)) if not n.startswith('_') and isinstance(_desc(cls, n), SLOT_DESCRIPTORS)
             and (cls.__name__, n) not in DEPENDENT]
        _SLOTS[cls] = r
    return r


def is_optional(d):
    return not isinstance(d, P.required_node_property)


def tree_models(f):
    return [m for _, m in docenv.walk(f) if isinstance(m, M.RawTreeModel) and type(m).__name__ != 'Repeated' and slots_of(type(m))]


def build_donor_sources():
    """(class name, slot) -> list of (doc key, model ordinal) where the slot is filled, de-duplicated by the child's text."""
    out = {}
    for key, text in DOCS.items():
        f = docenv.PARSER.parse(text, M.File)
        for mi, m in enumerate(tree_models(f)):
            for name, d in slots_of(type(m)):
                v = getattr(m, name)
                if v is None:
                    continue
                lst = out.setdefault((type(m).__name__, name), [])
                if all(t != text_of(v) for _, _, t in lst) and len(lst) < 4:
                    lst.append((key, mi, text_of(v)))
    return out


with NoTracing():
    DONOR_SOURCES = build_donor_sources()
    COUNTS = {k: len(tree_models(docenv.PARSER.parse(t, M.File))) for k, t in DOCS.items()}
    MAX_SLOTS = max(len(slots_of(type(m))) for t in DOCS.values() for m in tree_models(docenv.PARSER.parse(t, M.File)))


def tree_dump(m):
    return [(p, type(x).__name__, id(x) if isinstance(x, M.RawTokenModel) else None) for p, x in docenv.walk(m)]


def field_of_slot(m, name):
    """The `fields.field` name that backs slot `name` (raw_x -> _x); None when the class stores it differently."""
    fn = '_' + name[4:] if name.startswith('raw_') else None
    return fn if fn in docenv.field_names(type(m)) else None


KF_GLUE = 'C06-number-removed-from-compact-posting-glues-currency-to-account'


def glued_currency(m, name, new):
    """The recorded finding, and nothing else: the number of a posting written without a blank before its currency (`Assets:A  1USD`)
    was just removed, and the currency now directly follows the account (`Assets:AUSD` lexes as one account)."""
    if type(m).__name__ != 'Posting' or name not in ('raw_number', 'number') or new is not None or m.raw_currency is None:
        return False
    st = m.token_store
    return st.get_prev(m.raw_currency) is m.raw_account.last_token


def run_config(doc, mi, si, di, facet, lf=None, twin=False):
    """One configuration, concrete, untraced.  Returns a short status string (for calibration counts)."""
    if lf:
        set_load_factor(lf)
    f = docenv.PARSER.parse(DOCS[doc], M.File)
    docenv.warm(f)
    ms = tree_models(f)
    m = ms[mi]
    slots = slots_of(type(m))
    if si >= len(slots):
        return 'no-slot'
    name, d = slots[si]
    cur = getattr(m, name)
    sources = DONOR_SOURCES.get((type(m).__name__, name), [])
    # donor 0 = None (optional slots only); 1.. = sources
    if di == 0:
        if not is_optional(d):
            return 'required-none'
        donor, src = None, None
        if cur is None:
            return 'none-to-none'
    else:
        if di - 1 >= len(sources):
            return 'no-donor'
        key, smi, _ = sources[di - 1]
        src = docenv.PARSER.parse(DOCS[key], M.File)
        attached = getattr(tree_models(src)[smi], name)
        donor = attached if facet == 'refuse' else copy.deepcopy(attached)
    what = '%s[%d] %s.%s = %s' % (doc, mi, type(m).__name__, name, 'None' if donor is None else '%s %r' % (type(donor).__name__, text_of(donor)))
    store = f.token_store
    before = Snapshot(store)
    text_before = text_of(f)
    dump_before = tree_dump(f)
    pf, pl = m.first_token, m.last_token
    fld = field_of_slot(m, name)
    def inside(x, c):      # node x lies inside the span of child c
        ts = list(c.tokens)
        return x is not None and any(t is x.first_token for t in ts)
    holder = [n for n, c in docenv.children(m) if n != fld and c is not cur and isinstance(d, P.unordered_node_property) and isinstance(c, M.RawTreeModel)
              and type(c).__name__ in ('UnitCost', 'TotalCost')]
    sibs = [(n, c, text_of(c)) for n, c in docenv.children(m) if n != fld and c is not cur and n not in holder]
    if holder:     # the components of the cost are the siblings of an unordered component
        hc = m.__dict__[holder[0]]
        sibs += [('component %d' % k, c, text_of(c)) for k, c in enumerate(hc.raw_components) if c is not cur]
    old_tokens = list(cur.tokens) if cur is not None else []
    new_tokens = list(donor.tokens) if donor is not None and facet != 'refuse' else []
    if facet == 'refuse':
        if donor is None:
            return 'refuse-needs-donor'
        src_before, src_dump, src_text = Snapshot(src.token_store), tree_dump(src), text_of(src)
    try:
        setattr(m, name, donor)
        raised = None
    except (ValueError, TypeError, IndexError, KeyError) as e:
        raised = e
    if twin:
        raise Fail('twin reached the assertion point')
    if facet == 'refuse':
        check(raised is not None, what, '(donor still attached to another document) was accepted: the node now lives in two places')
        after = Snapshot(store)
        check(text_of(f) == text_before, what, 'refused, but the document text changed', R(text_of(f)))
        check(len(after.tokens) == len(before.tokens) and all(x is y for x, y in zip(after.tokens, before.tokens)), what, 'refused, but the token list changed')
        check(tree_dump(f) == dump_before, what, 'refused, but the tree changed')
        check(getattr(m, name) is cur, what, 'refused, but the slot reads differently')
        a2 = Snapshot(src.token_store)
        check(text_of(src) == src_text and len(a2.tokens) == len(src_before.tokens) and all(x is y for x, y in zip(a2.tokens, src_before.tokens)),
              what, 'refused, but the document the donor lives in changed')
        check(tree_dump(src) == src_dump, what, 'refused, but the tree of the document the donor lives in changed')
        return 'refused'
    if raised is not None:
        # an assignment the API documents as illegal (e.g. an unordered cost component without its prerequisites): must leave no trace
        check(text_of(f) == text_before and tree_dump(f) == dump_before, what, 'raised %r and changed the document' % (raised,), R(text_of(f)))
        return 'raised'
    got = getattr(m, name)
    check(got is donor, what, 'reads back another node', R(got))
    if facet == 'tree':
        docenv.tree_invariant(f, what=what)
        return 'ok'
    if facet == 'reparse':
        if glued_currency(m, name, donor) and known_finding(KF_GLUE):
            return 'ok'
        docenv.reparse_equivalent(f, what=what)
        return 'ok'
    after = Snapshot(store)
    docenv.check_window(before, after, pf, pl, old_tokens, new_tokens, what=what)
    for n, c, t in sibs:
        check(n.startswith('component ') or m.__dict__.get(n) is c, what, 'sibling slot', n, 'now holds another node')
        check(text_of(c) == t, what, 'sibling', n, 'changed its text', R(t), '->', R(text_of(c)))
    a, b = before.index[id(pf)], before.index[id(pl)]
    check(''.join(before.texts[:a]) == ''.join(after.texts[:a]) and all(x is y for x, y in zip(before.tokens[:a], after.tokens[:a])), what, 'text before the parent changed')
    nb, na = len(before.tokens), len(after.tokens)
    tail = nb - b - 1
    check(all(before.tokens[nb - 1 - k] is after.tokens[na - 1 - k] and before.texts[nb - 1 - k] == after.texts[na - 1 - k] for k in range(tail)), what, 'text after the parent changed')
    return 'ok'


def value_targets(m):
    """Value-level properties of m that stand alone (the dependent groups are decided by C09's cost_* / payee_* cells)."""
    from harness import c09_values as V
    out = []
    for name, d in V.value_props(type(m)):
        if d is None or len(V.group_of(type(m), name)) > 1:
            continue
        t = V.inner_type(m, name, d)
        cands = [c for c in V.CANDIDATES.get(t, []) if c is not V.STR_SYM]
        if V.optional(d):
            cands = [None] + cands
        out.append((name, cands))
    return out


def run_value(doc, mi, pi, vi, facet, lf=None, twin=False):
    """One value-level assignment m.<prop> = v on model mi of the document, concrete, untraced."""
    if lf:
        set_load_factor(lf)
    f = docenv.PARSER.parse(DOCS[doc], M.File)
    docenv.warm(f)
    m = tree_models(f)[mi]
    name, cands = value_targets(m)[pi]
    v = cands[vi]
    what = '%s[%d] %s.%s = %r' % (doc, mi, type(m).__name__, name, v)
    raw_name = 'raw_' + name
    cur = getattr(m, raw_name, None)
    if cur is None and v is None:
        return 'none-to-none'
    store = f.token_store
    before = Snapshot(store)
    pf, pl = m.first_token, m.last_token
    fld = '_' + name if '_' + name in docenv.field_names(type(m)) else None
    holder = [n for n, c in docenv.children(m) if fld is None and isinstance(c, M.RawTreeModel) and type(c).__name__ in ('UnitCost', 'TotalCost')]
    sibs = [(n, c, text_of(c)) for n, c in docenv.children(m) if n != fld and c is not cur and n not in holder]
    if holder:
        sibs += [('component %d' % k, c, text_of(c)) for k, c in enumerate(m.__dict__[holder[0]].raw_components) if c is not cur]
    old_tokens = list(cur.tokens) if cur is not None else []
    setattr(m, name, v)
    if twin:
        raise Fail('twin reached the assertion point')
    got = getattr(m, name)
    check(got == v, what, 'reads back', R(got))
    if facet == 'tree':
        docenv.tree_invariant(f, what=what)
        return 'ok'
    if facet == 'reparse':
        if glued_currency(m, name, v) and known_finding(KF_GLUE):
            return 'ok'
        if name != 'indent':      # C06 excludes indent overrides
            docenv.reparse_equivalent(f, what=what)
        return 'ok'
    new = getattr(m, raw_name, None)
    new_tokens = list(new.tokens) if new is not None else []
    after = Snapshot(store)
    docenv.check_window(before, after, pf, pl, old_tokens, new_tokens, what=what, inplace_ok=True)
    for n, c, t in sibs:
        check(n.startswith('component ') or m.__dict__.get(n) is c, what, 'sibling slot', n, 'now holds another node')
        check(text_of(c) == t, what, 'sibling', n, 'changed its text', R(t), '->', R(text_of(c)))
    a, b = before.index[id(pf)], before.index[id(pl)]
    check(all(x is y for x, y in zip(before.tokens[:a], after.tokens[:a])) and before.texts[:a] == after.texts[:a], what, 'text before the parent changed')
    nb, na = len(before.tokens), len(after.tokens)
    check(all(before.tokens[nb - 1 - k] is after.tokens[na - 1 - k] and before.texts[nb - 1 - k] == after.texts[na - 1 - k] for k in range(nb - b - 1)), what, 'text after the parent changed')
    return 'ok'


def value_configs(doc):
    f = docenv.PARSER.parse(DOCS[doc], M.File)
    out = []
    for mi, m in enumerate(tree_models(f)):
        for pi, (name, cands) in enumerate(value_targets(m)):
            for vi, v in enumerate(cands):
                if v is None and getattr(m, 'raw_' + name, None) is None:
                    continue
                out.append((mi, pi, vi))
    return out


def make_value(doc, facet, lf=None, twin=False, part=(0, 1)):
    cfgs = VALUE_CONFIGS[doc][part[0]::part[1]]
    n = len(cfgs)

    def cell(ci: int) -> None:
        assert 0 <= ci < n
        ci = pick(ci, 0, n - 1)
        with NoTracing():
            mi, pi, vi = cfgs[ci]
            run_value(doc, mi, pi, vi, facet, lf=lf, twin=twin)

    return 'slotval_%s_%s_p%d%s%s' % (doc, facet, part[0], '_lf%d' % lf if lf else '', '_twin' if twin else ''), cell


def configs(doc, facet):
    """Every (model ordinal, slot ordinal, donor choice) that denotes an assignment, found by inspecting the parsed scaffold."""
    f = docenv.PARSER.parse(DOCS[doc], M.File)
    out = []
    for mi, m in enumerate(tree_models(f)):
        for si, (name, d) in enumerate(slots_of(type(m))):
            n_src = len(DONOR_SOURCES.get((type(m).__name__, name), []))
            if facet != 'refuse' and is_optional(d) and getattr(m, name) is not None:
                out.append((mi, si, 0))
            out += [(mi, si, di) for di in range(1, n_src + 1)]
    return out


with NoTracing():
    CONFIGS = {(doc, facet): configs(doc, facet) for doc in DOCS for facet in ('window', 'refuse')}
    VALUE_CONFIGS = {doc: value_configs(doc) for doc in DOCS}


def make_slot(doc, facet, lf=None, twin=False, part=None):
    cfgs = CONFIGS[(doc, 'refuse' if facet == 'refuse' else 'window')]
    if part is not None:
        cfgs = cfgs[part[0]::part[1]]
    n = len(cfgs)

    def cell(ci: int) -> None:
        assert 0 <= ci < n
        ci = pick(ci, 0, n - 1)
        with NoTracing():
            mi, si, di = cfgs[ci]
            r = run_config(doc, mi, si, di, facet, lf=lf, twin=twin)
            check(r in ('ok', 'raised', 'refused'), 'harness: configuration', (doc, mi, si, di), 'did not denote an assignment:', r)

    return 'slot_%s_%s%s%s' % (doc, facet, '_lf%d' % lf if lf else '', '_twin' if twin else ''), cell


CELLS = {}


def _reg(name_fn, tiers, timeout, family, bounds, twin=False, cost=None):
    name, fn = name_fn
    assert name not in CELLS, 'duplicate cell name ' + name
    CELLS[name] = dict(fn=fn, tiers=tiers, timeout=timeout, family=family, bounds=bounds, twin=twin, cost=cost or timeout)


Q, T = ('quick', 'thorough'), ('thorough',)
_B = ('scaffold document %s (%d assignments): model ordinal (every tree model) x slot (required / optional / unordered node properties by introspection) x donor '
      '(None, <= 4 free-standing copies of nodes found in the same slot of the same class in documents A and B)%s')
for _doc in DOCS:
    for _facet, _prop in (('window', 'C03'), ('tree', 'C05'), ('reparse', 'C06'), ('refuse', 'C19')):
        _reg(make_slot(_doc, _facet), {_prop: Q}, 900, 'slot', _B % (_doc, len(CONFIGS[(_doc, 'refuse' if _facet == 'refuse' else 'window')]), '; facet ' + _facet), cost=200)
        _reg(make_slot(_doc, _facet, lf=2), {_prop: T}, 1800, 'slot', _B % (_doc, len(CONFIGS[(_doc, 'refuse' if _facet == 'refuse' else 'window')]), '; facet %s; token store at load factor 2' % _facet), cost=200)
_VB = ('scaffold document %s: model ordinal (every tree model) x value-level property (every stand-alone value property by introspection) x value '
       '(None for optional ones, the in-domain alternatives of harness/c09_values.py); %d of %d assignments; facet %s%s')
NPART = 3
for _doc in DOCS:
    for _facet, _prop in (('window', 'C03'), ('tree', 'C05'), ('reparse', 'C06')):
        for _p in range(NPART):
            _n = len(VALUE_CONFIGS[_doc][_p::NPART])
            _reg(make_value(_doc, _facet, part=(_p, NPART)), {_prop: Q}, 900, 'slot-value', _VB % (_doc, _n, len(VALUE_CONFIGS[_doc]), _facet, ''), cost=200)
            _reg(make_value(_doc, _facet, part=(_p, NPART), lf=2), {_prop: T}, 1800, 'slot-value', _VB % (_doc, _n, len(VALUE_CONFIGS[_doc]), _facet, '; token store at load factor 2'), cost=200)
_reg(make_value('A', 'window', twin=True), {'C03': Q}, 300, 'slot-value', 'vacuity twin', twin=True, cost=5)
for _facet, _prop in (('window', 'C03'), ('tree', 'C05'), ('reparse', 'C06'), ('refuse', 'C19')):
    _reg(make_slot('A', _facet, twin=True), {_prop: Q}, 300, 'slot', 'vacuity twin', twin=True, cost=5)

FILES = ['autobean_refactor/models/internal/properties.py', 'autobean_refactor/models/internal/fields.py', 'autobean_refactor/models/cost_spec.py',
         'autobean_refactor/models/base.py', 'autobean_refactor/token_store.py']
ENCODES = ['autobean_refactor/models/internal/properties.py: required_node_property.__set__, optional_node_property.__set__, replace_node',
           'autobean_refactor/models/internal/fields.py: optional_left_field / optional_right_field _create_node, _remove_node',
           'autobean_refactor/models/cost_spec.py: unordered_node_property',
           'autobean_refactor/models/generated/*.py: the *_pivot chains of every class (first/last token of optional neighbours)',
           'autobean_refactor/models/base.py: detach, reattach; autobean_refactor/token_store.py: insert_after, insert_before, splice, remove']
STUBS = ['model ordinal, slot ordinal and donor choice are symbolic selectors enumerated exhaustively by the solver; each configuration then runs the real code natively']
OUTSIDE = ['documents other than the two scaffolds; donors other than nodes found in the same slot of the same class; more than one slot assignment per cell']


def selftest():
    return docenv.selftest()


if __name__ == '__main__':      # native calibration: every configuration of every facet
    import collections
    for doc in DOCS:
        for facet in ('window', 'tree', 'reparse', 'refuse'):
            stat = collections.Counter()
            for (mi, si, di) in CONFIGS[(doc, 'refuse' if facet == 'refuse' else 'window')]:
                try:
                    stat[run_config(doc, mi, si, di, facet)] += 1
                except Fail as e:
                    stat['FAIL'] += 1
                    print('FAIL', doc, facet, mi, si, di, str(e)[:400])
                except Exception as e:
                    stat['ERR'] += 1
                    print('ERR', doc, facet, mi, si, di, repr(e)[:300])
            print(doc, facet, dict(stat))
        for facet in ('window', 'tree', 'reparse'):
            stat = collections.Counter()
            for (mi, pi, vi) in VALUE_CONFIGS[doc]:
                try:
                    stat[run_value(doc, mi, pi, vi, facet)] += 1
                except Fail as e:
                    stat['FAIL'] += 1
                    print('FAIL', doc, 'value', facet, mi, pi, vi, str(e)[:600])
                except Exception as e:
                    stat['ERR'] += 1
                    print('ERR', doc, 'value', facet, mi, pi, vi, repr(e)[:300])
            print(doc, 'value', facet, dict(stat))
