"""C17 -- spacing accessors read and write exactly the whitespace between neighbours (also C05: tree stays valid).

Symbolic selectors: model ordinal (every model and token reachable from the root except the root), side, and the new
spacing as up to 3 units from {SP, TAB, LF, CRLF}.  Oracle: an index walk over a snapshot of the token list
(independent of store navigation), character-level comparison of the printed text, identity window.
"""
from symx.env import NoTracing, check, Fail, NATIVE, pick, R, set_load_factor
from symx import docenv
from symx.docenv import text_of, Snapshot
from autobean_refactor import models
from autobean_refactor.models.internal import spacing_accessors as SA

M = models
UNITS = [' ', '\t', '\n', '\r\n', '\r\r\n']      # the newline lexeme is \r*\n: a doubly converted line end is in the domain
NU = len(UNITS) - 1
TEMPLATES = {
    'two_dirs': '2000-01-01 open Assets:A  USD\n\n  \n\t\n2000-01-02 close Assets:A ; ic\n',
    'txn': '; lead\n2000-01-01 * "p"  "n" #t ; ic\n  kk: 1\n  Assets:A   1 USD {2 EUR} @ 3 GBP ; pic\n    mm: "x"\n  ; between\n  Assets:B\n; trail\n',
    'crlf': '2000-01-01 open Assets:A\r\n\r\n2000-01-02 * "n"\r\n  Assets:A  1 USD\r\n',
    'trailing_blanks': '2000-01-01 open Assets:Foo   \n    foo: 1  \n    bar: "x"\t\n2000-01-02 close Assets:Foo  \n',
    'no_final_newline': '2000-01-01 open Assets:A\n2000-01-02 note Assets:A "n" #a ^b',
    'custom': '2000-01-01 custom "t"  1+2 USD   TRUE\n\n\n* ignored line\noption "a"   "b"\n',
    # neighbours written without a blank, some across the zero-width placeholder of a repeated field
    'tight': '2000-01-01 *"p""n"#t^l;ic\n  Assets:A  1USD{2EUR}@3GBP\n2000-01-02 open Assets:A"STRICT"\n2000-01-03 note Assets:A "n"#a\n',
}


def spacing_models(f):
    out = []
    for path, m in docenv.walk(f):
        if m is f:
            continue
        if isinstance(m, SA.SpacingAccessorsMixin):
            out.append((path, m))
    return out


def oracle_run(snap, idx, step):
    """Tokens of the spacing run next to index idx going in direction step: skip zero-width tokens, then collect the
    contiguous Whitespace/Newline tokens (zero-width ones inside the run are skipped but do not end it only if they
    are Whitespace/Newline instances, which never happens for parsed documents)."""
    toks = snap.tokens
    i = idx + step
    while 0 <= i < len(toks) and not toks[i].raw_text:
        i += step
    run = []
    while 0 <= i < len(toks) and isinstance(toks[i], (M.Whitespace, M.Newline)):
        if toks[i].raw_text:
            run.append(i)
        i += step
    return sorted(run)


def blanks_removed(s):
    return ''.join(ch for ch in s if ch not in ' \t\r\n')


def make_spacing(tname, side, klen, facet, twin=False, lf=None):
    text = TEMPLATES[tname]
    with NoTracing():
        n_models = len(spacing_models(docenv.PARSER.parse(text, M.File)))
    blo, bhi = docenv.block_bounds(lf) if lf else (0, 0)

    def cell(mi: int, u0: int, u1: int, u2: int, bp: int = 0, bs: int = 0) -> None:
        assert 0 <= mi < n_models and 0 <= u0 <= NU and 0 <= u1 <= NU and 0 <= u2 <= NU
        assert (bp == 0 and bs == 0) if lf is None else (0 <= bp < len(docenv.BLOCK_PATTERNS) and 0 <= bs <= bhi - blo)
        mi = pick(mi, 0, n_models - 1)
        us = [pick(u, 0, NU) for u in (u0, u1, u2)[:klen]]
        if lf is not None:
            bp, bs = pick(bp, 0, len(docenv.BLOCK_PATTERNS) - 1), pick(bs, 0, bhi - blo)
        with NoTracing():
            set_load_factor(1000)
            f = docenv.PARSER.parse(text, M.File)
            if lf is not None:      # the store is re-partitioned into a symbolically chosen legal block layout
                docenv.reblock(f.token_store, lf, bp, bs)
            docenv.warm(f)          # every attribute and view was read once before the accessor is used
            ms = spacing_models(f)
            path, m = ms[mi]
            new = ''.join(UNITS[u] for u in us)
            store = f.token_store
            before = Snapshot(store)
            what = '%s %s.spacing_%s = %r' % (tname, path, side, new)
            if side == 'before':
                idx = before.index[id(m.first_token)]
                run = oracle_run(before, idx, -1)
                got = m.spacing_before
                raw = m.raw_spacing_before
            else:
                idx = before.index[id(m.last_token)]
                run = oracle_run(before, idx, +1)
                got = m.spacing_after
                raw = m.raw_spacing_after
            old = ''.join(before.texts[i] for i in run)
            check(got == old, what, 'getter returned', R(got), 'but the adjacent run of blanks is', R(old))
            check([id(t) for t in raw] == [id(before.tokens[i]) for i in run], what, 'raw getter returned other tokens than the adjacent run')
            check(Snapshot(store).text() == before.text(), what, 'the getter changed the document')
            # neighbours see the same run from their two sides
            for p2, m2 in ms:
                if m2 is m:
                    continue
                if side == 'after' and oracle_run(before, before.index[id(m2.first_token)], -1) == run and run:
                    check(m2.spacing_before == got, what, 'neighbour', p2, 'sees a different run', R(m2.spacing_before))
            if side == 'before':
                m.spacing_before = new
            else:
                m.spacing_after = new
            if twin:
                raise Fail('twin reached the assertion point')
            after = Snapshot(store)
            if facet == 'tree':
                docenv.tree_invariant(f, what='tree after ' + what)
                return
            bt, at = before.text(), after.text()
            check(blanks_removed(at) == blanks_removed(bt), what, 'non-blank text changed', R(at))
            check(len(at) - len(bt) == len(new) - len(old), what, 'length changed by', len(at) - len(bt), 'expected', len(new) - len(old))
            # only the located run changed
            run_ids = {id(before.tokens[i]) for i in run}
            kept = [t for t in before.tokens if id(t) not in run_ids]
            kept_after = [t for t in after.tokens if id(t) in before.index and id(t) not in run_ids]
            check(len(kept) == len(kept_after) and all(a is b for a, b in zip(kept, kept_after)), what, 'tokens outside the run were removed or re-ordered')
            for t in after.tokens:
                if id(t) in run_ids:
                    continue
                if id(t) in before.index:
                    check(t.raw_text == before.texts[before.index[id(t)]], what, 'text of a token outside the run changed')
                else:
                    check(isinstance(t, (M.Whitespace, M.Newline)), what, 'a non-spacing token appeared', docenv.R_(t))
            # characters before the run and after it are untouched: the new text sits where the old run was
            if run:
                a0 = sum(len(x) for x in before.texts[:run[0]])
            else:
                a0 = sum(len(x) for x in before.texts[:idx + (1 if side == 'after' else 0)])
            if not run or run == list(range(run[0], run[-1] + 1)) or all(not before.texts[i] for i in range(run[0], run[-1] + 1) if i not in run):
                check(at[:a0] == bt[:a0] and at[a0:a0 + len(new)] == new and at[a0 + len(new):] == bt[a0 + len(old):], what,
                      'characters outside the run changed', R(at))
            if new:
                back = m.spacing_before if side == 'before' else m.spacing_after
                check(back == new, what, 'reads back as', R(back))
            # after the assignment every model still reads exactly the run of blanks adjacent to it, from either side
            for p2, m2 in ms:
                for sd in ('before', 'after'):
                    i2 = after.index[id(m2.first_token if sd == 'before' else m2.last_token)]
                    want = ''.join(after.texts[r] for r in oracle_run(after, i2, -1 if sd == 'before' else 1))
                    got2 = m2.spacing_before if sd == 'before' else m2.spacing_after
                    check(got2 == want, what, 'afterwards', p2, 'reads spacing_' + sd, R(got2), 'but the adjacent run of blanks is', R(want))

    return 'spacing_%s_%s_%s_k%d%s%s' % (facet, tname, side, klen, ('_lf%d' % lf) if lf else '', '_twin' if twin else ''), cell


def make_text(tname, side, n, all_models, twin=False):
    """Value-symbolic spacing: the assigned string is n symbolic code points constrained only by the property's domain
    (blanks, tabs and newline lexemes \\r*\\n); the module's own regex is interpreted by symre so the text stays symbolic
    through _text_to_tokens, the token constructors and the store splice."""
    from symx.symre import SymRegex
    from symx.env import Acc
    text = TEMPLATES[tname]
    with NoTracing():
        ms0 = spacing_models(docenv.PARSER.parse(text, M.File))
        if all_models:
            chosen = list(range(len(ms0)))
        else:       # one model with a non-empty adjacent run, one with an empty one, one inside a line
            chosen = []
            f0 = docenv.PARSER.parse(text, M.File)
            ms1 = spacing_models(f0)
            snap = Snapshot(f0.token_store)
            seen = set()
            for k, (p_, m_) in enumerate(ms1):
                idx = snap.index[id(m_.first_token if side == 'before' else m_.last_token)]
                run = oracle_run(snap, idx, -1 if side == 'before' else 1)
                kind = (bool(run), any('\n' in snap.texts[r] for r in run))
                if kind not in seen:
                    seen.add(kind)
                    chosen.append(k)
    nm = len(chosen)

    def cell(mi: int, c0: int, c1: int, c2: int, c3: int, c4: int) -> None:
        assert 0 <= mi < nm
        assert all((c == 32) | (c == 9) | (c == 13) | (c == 10) for c in (c0, c1, c2, c3, c4)[:n])
        assert all(bool(c != 13) | ((k + 1 < n) and bool((d == 13) | (d == 10))) for k, (c, d) in enumerate(zip((c0, c1, c2, c3, c4)[:n], (c1, c2, c3, c4, 0)[:n])))
        assert all(c == 0 for c in (c0, c1, c2, c3, c4)[n:])
        cs = [c0, c1, c2, c3, c4][:n]
        mi = pick(mi, 0, nm - 1)
        new = ''
        for c in cs:
            new = new + chr(c)
        with NoTracing():
            set_load_factor(1000)
            f = docenv.PARSER.parse(text, M.File)
            path, m = spacing_models(f)[chosen[mi]]
            store = f.token_store
            before = Snapshot(store)
            idx = before.index[id(m.first_token if side == 'before' else m.last_token)]
            run = oracle_run(before, idx, -1 if side == 'before' else 1)
            old = ''.join(before.texts[i] for i in run)
            bt = before.text()
            a0 = sum(len(x) for x in before.texts[:run[0]]) if run else sum(len(x) for x in before.texts[:idx + (1 if side == 'after' else 0)])
            contiguous = not run or all(not before.texts[i] for i in range(run[0], run[-1] + 1) if i not in run)
            what = '%s %s.spacing_%s = <%d symbolic characters>' % (tname, path, side, n)
        saved = SA._SPACING_GROUP_RE
        SA._SPACING_GROUP_RE = SymRegex(saved) if not NATIVE else saved
        try:
            if side == 'before':
                m.spacing_before = new
                back = m.spacing_before
            else:
                m.spacing_after = new
                back = m.spacing_after
        finally:
            SA._SPACING_GROUP_RE = saved
        if twin:
            raise Fail('twin reached the assertion point')
        at = ''.join([t.raw_text for t in store])
        acc = Acc()
        if contiguous:
            acc.eq(at, bt[:a0] + new + bt[a0 + len(old):], what, 'the document is not the old one with the run replaced by the assigned string')
        acc.eq(len(at) - len(bt), n - len(old), what, 'length changed by another amount')
        if n:
            acc.eq(back, new, what, 'reads back differently')
        acc.done(what, 'assigned', R(new), 'document', R(at), 'reads back', R(back))
        with NoTracing():
            docenv.tree_invariant(f, what='tree after ' + what)

    return 'spacingtext_%s_%s_n%d%s%s' % (tname, side, n, '_all' if all_models else '', '_twin' if twin else ''), cell


CELLS = {}


def _reg(name_fn, tiers, timeout, family, bounds, twin=False, cost=None):
    name, fn = name_fn
    assert name not in CELLS, 'duplicate cell name ' + name
    CELLS[name] = dict(fn=fn, tiers=tiers, timeout=timeout, family=family, bounds=bounds, twin=twin, cost=cost or timeout)


Q, T = ('quick', 'thorough'), ('thorough',)
for _t in TEMPLATES:
    for _side in ('before', 'after'):
        for _k in (0, 1, 2, 3):
            quick = _k <= 2
            _reg(make_spacing(_t, _side, _k, 'spacing'), {'C17': Q if quick else T}, 900, 'spacing',
                 'template %s: every model/token x spacing_%s x every string of %d units from {SP,TAB,LF,CRLF,CRCRLF}' % (_t, _side, _k), cost=5 ** _k * 10)
            _reg(make_spacing(_t, _side, _k, 'tree'), {'C05': Q if _k == 1 else T}, 900, 'spacing/tree',
                 'template %s: tree invariant after spacing_%s = string of %d units' % (_t, _side, _k), cost=5 ** _k * 10)
for _t in ('two_dirs', 'txn', 'trailing_blanks', 'custom'):      # block layouts
    for _side in ('before', 'after'):
        for _k in (0, 1):
            for _lf in (2, 4, 5):
                quick = _t in ('two_dirs', 'txn') and _k == 0
                for _facet, _prop in (('spacing', 'C17'), ('tree', 'C05')):
                    _reg(make_spacing(_t, _side, _k, _facet, lf=_lf), {_prop: Q if (quick and (_facet == 'spacing' or _lf == 4)) else T}, 900, 'spacing/blk',
                         'template %s: every model/token x spacing_%s = string of %d units, on a store re-partitioned for load factor %d (symbolic block pattern and first block size)'
                         % (_t, _side, _k, _lf), cost=300)
for _t in ('two_dirs', 'txn', 'no_final_newline', 'crlf'):
    for _side in ('before', 'after'):
        for _n in (1, 2, 3, 4, 5):
            _reg(make_text(_t, _side, _n, False), {'C17': Q if (_n <= 3 and _t in ('two_dirs', 'txn')) else T}, 900, 'spacing/text',
                 'template %s: spacing_%s = EVERY string of %d code points in the domain ([ \\t]|\\r*\\n)*, on three representative models (adjacent run empty / blanks / with newlines)' % (_t, _side, _n), cost=100)
        _reg(make_text(_t, _side, 2, True), {'C17': T}, 1800, 'spacing/text', 'template %s: spacing_%s = every in-domain string of 2 code points on every model and token' % (_t, _side), cost=300)
_reg(make_text('txn', 'before', 2, False, twin=True), {'C17': Q}, 120, 'spacing/text', 'vacuity twin', twin=True, cost=1)
_reg(make_spacing('txn', 'before', 1, 'spacing', twin=True), {'C17': Q}, 120, 'spacing', 'vacuity twin', twin=True, cost=1)
_reg(make_spacing('txn', 'after', 1, 'tree', twin=True), {'C05': Q}, 120, 'spacing/tree', 'vacuity twin', twin=True, cost=1)

FILES = ['autobean_refactor/models/internal/spacing_accessors.py', 'autobean_refactor/models/spacing.py', 'autobean_refactor/token_store.py']
ENCODES = ['autobean_refactor/models/internal/spacing_accessors.py: SpacingAccessorsMixin.raw_spacing_before/after, spacing_before/after (get and set), _find_spacing, _text_to_tokens']
STUBS = ['text cells: spacing_accessors._SPACING_GROUP_RE is replaced by symx.symre.SymRegex interpreting the SAME pattern and flags (findall with re scanning rules; validated against re), so the assigned string stays symbolic',
         'blk cells: the parsed store is re-partitioned (docenv.reblock) into a legal block layout chosen by symbolic selectors',
         'model ordinal, side and spacing units are symbolic selectors enumerated exhaustively by the solver; the accessor calls run natively on the concrete document of each path']
OUTSIDE = ['templates other than the 7 listed; spacing strings longer than 3 units (selector cells) / 5 code points (text cells); lone CR (outside the property\'s domain "LF and CRLF")']


def selftest():
    return docenv.selftest()
