"""C16 -- the editor writes exactly the edited files, exactly, and nothing else.

The REAL `editor.Editor.edit_file / edit_file_recursive` (with the real parser, printer, pathlib.Path.read_text/
write_text/open, glob algorithm and os.path string functions) runs on an in-memory POSIX file system (symx.fsenv) whose
system calls are modelled by their documented contract -- in particular text-mode newline translation of open().  In
native replay the same cell runs on a real temporary directory with the real os/io/glob/pathlib.

Two kinds of cells:
* scenario cells -- selectors are symbolic (include graph x how the entry path is spelled x line-ending pattern x
  missing final newline x subset of files edited x entry removed x entry added/replaced x body raising); the oracle is
  computed from the initial disk contents alone: edited files = original characters with only the edited fragment
  replaced (carriage returns as they were), unedited files neither changed nor rewritten (modification stamp), removed
  entries deleted, new entries created with the printed model, nothing else created, every reachable file is one key of
  the mapping and is read exactly once, and a raising body leaves every file and directory untouched.
* content cells -- the file's TEXT is symbolic: one free Unicode code point is inserted at a chosen place of the file on
  disk; it goes through the modelled read, the real lexer/parser (symre), an edit of another directive, the real printer
  and the modelled write.  If the text parses, the file afterwards must be the original characters with only the edited
  fragment replaced; if it does not, the error propagates and nothing is written.
"""
import posixpath

from symx.env import NoTracing, check, Fail, NATIVE, pick, R
from symx import fsenv, parseenv, lexenv
from symx.parseenv import build
from autobean_refactor import editor as editor_lib, models

M = models
PARSER = lexenv.PARSER
MAXCP = 0x10FFFF


class ParserShim:
    """Editor(parser=...): concrete texts are parsed by the real parser untraced (speed); symbolic texts by the real
    parser under tracing with the lexer's regexes interpreted by symre (symx.parseenv)."""

    def parse(self, text, target, **kw):
        with NoTracing():
            concrete = type(text) is str
        if concrete or NATIVE:
            return parse_concrete(text, target, **kw)
        if len(text) != len(parseenv.SHADOW[0]):
            parseenv.HOLES[:] = [(0, len(text))]       # the text was altered on the way: no native lexing shortcuts
        return PARSER.parse(text, target, **kw)


def parse_concrete(text, target, **kw):
    with NoTracing():
        parseenv.HOLES[:] = []
        parseenv.SHADOW[0] = text          # the patched lexer works on the shadow text wherever no hole is involved
        return PARSER.parse(text, target, **kw)


def body_lines(name, includes):
    return ['include "%s"' % i for i in includes] + [
        '; file %s' % name, '2000-01-01 open Assets:Pre', '', '2000-01-02 open Assets:Old USD  ; keep   ', '  note: "x"',
        '2000-01-03 close Assets:Post']


def content(name, includes, crlf, final_nl):
    nl = '\r\n' if crlf else '\n'
    return nl.join(body_lines(name, includes)) + (nl if final_nl else '')


NEW_TEXT = '2000-01-01 open Assets:N\n'
OTHER = 'w/unrelated.bean'
# files: {path relative to the root: include patterns, or None for a non-ledger file}; reach = files the recursive edit must visit
GRAPHS = {
    'single': dict(files={'w/main.bean': []}, reach=['w/main.bean']),
    'chain': dict(files={'w/main.bean': ['a.bean'], 'w/a.bean': ['sub/b.bean'], 'w/sub/b.bean': []}, reach=['w/main.bean', 'w/a.bean', 'w/sub/b.bean']),
    'glob': dict(files={'w/main.bean': ['inc/*.bean'], 'w/inc/x.bean': [], 'w/inc/y.bean': [], 'w/inc/z.txt': None},
                 reach=['w/main.bean', 'w/inc/x.bean', 'w/inc/y.bean']),
    'rglob': dict(files={'w/main.bean': ['inc/**/*.bean'], 'w/inc/x.bean': [], 'w/inc/d/y.bean': []}, reach=['w/main.bean', 'w/inc/x.bean', 'w/inc/d/y.bean']),
    'cycle': dict(files={'w/main.bean': ['a.bean'], 'w/a.bean': ['main.bean', 'a.bean']}, reach=['w/main.bean', 'w/a.bean']),
    'cycle_up': dict(files={'w/main.bean': ['sub/b.bean'], 'w/sub/b.bean': ['../main.bean']}, reach=['w/main.bean', 'w/sub/b.bean']),
    'selfglob': dict(files={'w/main.bean': ['*.bean'], 'w/a.bean': []}, reach=['w/main.bean', 'w/a.bean', OTHER]),
    'diamond': dict(files={'w/main.bean': ['a.bean', 'b.bean'], 'w/a.bean': ['shared/c.bean'], 'w/b.bean': ['shared/c.bean'], 'w/shared/c.bean': []},
                    reach=['w/main.bean', 'w/a.bean', 'w/b.bean', 'w/shared/c.bean']),
    'respell': dict(files={'w/main.bean': ['./a.bean', 'sub/../a.bean', 'a.bean', 'sub/../sub/./b.bean'], 'w/a.bean': ['sub/b.bean'], 'w/sub/b.bean': []},
                    reach=['w/main.bean', 'w/a.bean', 'w/sub/b.bean']),
    'overlap': dict(files={'w/main.bean': ['inc/*.bean', 'inc/x.bean', 'inc/?.bean'], 'w/inc/x.bean': ['y.bean'], 'w/inc/y.bean': ['../main.bean']},
                    reach=['w/main.bean', 'w/inc/x.bean', 'w/inc/y.bean']),
}
NOMATCH = dict(files={'w/main.bean': ['a.bean'], 'w/a.bean': ['missing*.bean']})
# (cwd relative to the root, entry path as the user writes it; {root} = absolute root, P(...) = a pathlib.Path)
SPELLINGS = {
    'bare': ('w', 'main.bean'),
    'dot': ('w', './main.bean'),
    'updown': ('w', 'sub/../main.bean'),
    'abs': ('w', '{root}/w/main.bean'),
    'pathobj': ('w', 'P:main.bean'),
    'fromroot': ('.', 'w/main.bean'),
    'outside': ('elsewhere', '../w//main.bean'),
}
SPELLING_NAMES = list(SPELLINGS)
ENDINGS = ['lf', 'crlf', 'mixed', 'crlf_nofinal', 'lf_nofinal']


def make_world(graph, spelling, ending):
    g = GRAPHS.get(graph) or NOMATCH
    files = {}
    for k, (path, inc) in enumerate(sorted(list(g['files'].items()) + [(OTHER, [])])):
        crlf = {'lf': False, 'crlf': True, 'mixed': k % 2 == 0, 'crlf_nofinal': True, 'lf_nofinal': False}[ending]
        final = not ending.endswith('nofinal')
        files[path] = 'not a ledger \r\n\x00' if inc is None else content(path, inc, crlf, final)
    cwd, entry = SPELLINGS[spelling]
    w = fsenv.World(files, dirs=['w/sub', 'elsewhere'], cwd=cwd)
    entry = entry.replace('{root}', w.root)
    if entry.startswith('P:'):
        entry = w.Path(entry[2:])
    return w, files, entry, cwd


def rel_of_key(w, cwd, key):
    return posixpath.relpath(posixpath.normpath(posixpath.join(w.root, cwd, key)), w.root)


def edit_account(f):
    for d in f.raw_directives:
        if isinstance(d, M.Open) and d.account == 'Assets:Old':
            d.account = 'Assets:New'
            return
    raise Fail('scaffold directive not found')


class Boom(Exception):
    pass


def compare_fs(w, expected, init_dirs, new_dirs, what):
    snap = w.snapshot()
    check(sorted(snap) == sorted(expected), what, 'set of files on disk differs: got', R(sorted(snap)), 'expected', R(sorted(expected)))
    for p, (text, rewritten) in expected.items():
        got, stamp = snap[p]
        check(got == text, what, 'content of', p, 'is', R(got), 'expected', R(text))
        if rewritten is False:
            check(not stamp, what, p, 'was rewritten although its model did not change')
    dirs = w.dirs()
    check(init_dirs <= dirs and dirs <= init_dirs | new_dirs, what, 'directories differ', R(sorted(dirs - init_dirs)), R(sorted(init_dirs - dirs)))


def make_recursive(graph, spelling, twin=False, fixed_ending=None):
    reach = sorted(GRAPHS[graph]['reach'])
    n = len(reach)

    def cell(ending: int, mask: int, remove: int, add: int, boom: bool) -> None:
        assert 0 <= ending < len(ENDINGS) and 0 <= mask < 2 ** n and 0 <= remove <= n and 0 <= add <= 5
        assert fixed_ending is None or ending == fixed_ending
        ending_name = ENDINGS[pick(ending, 0, len(ENDINGS) - 1)]
        mask, remove, add, boom = pick(mask, 0, 2 ** n - 1), pick(remove, 0, n), pick(add, 0, 5), bool(pick(boom, 0, 1))
        what = 'graph=%s entry=%s endings=%s edited=%s removed=%s add=%d raising=%s:' % (
            graph, spelling, ending_name, [reach[i] for i in range(n) if mask >> i & 1], reach[remove] if remove < n else None, add, boom)
        with NoTracing():       # every selector is concrete from here on: the scenario runs at native speed
            w, files, entry, cwd = make_world(graph, spelling, ending_name)
            try:
                run_recursive(w, files, entry, cwd, reach, mask, remove, add, boom, what, twin)
            finally:
                w.close()

    return 'rec_%s_%s%s%s' % (graph, spelling, '' if fixed_ending is None else '_' + ENDINGS[fixed_ending], '_twin' if twin else ''), cell


def run_recursive(w, files, entry, cwd, reach, mask, remove, add, boom, what, twin):
    n = len(reach)
    init_dirs = w.dirs()
    ed = editor_lib.Editor(ParserShim())
    w.bind(editor_lib)
    expected = {p: (t, False) for p, t in files.items()}
    new_dirs = set()
    raised = None
    try:
        try:
            with ed.edit_file_recursive(entry) as fs:
                keys = list(fs)
                rels = [rel_of_key(w, cwd, k) for k in keys]
                check(sorted(rels) == reach, what, 'files visited', R(keys), 'expected exactly once each:', R(reach))
                by = dict(zip(rels, keys))
                entry_key = by['w/main.bean']
                for i in range(n):
                    if mask >> i & 1:
                        edit_account(fs[by[reach[i]]])
                        expected[reach[i]] = (files[reach[i]].replace('Assets:Old', 'Assets:New'), None)
                if remove < n:
                    del fs[by[reach[remove]]]
                    del expected[reach[remove]]
                if add:
                    newf = parse_concrete(NEW_TEXT, M.File)
                    if add == 4:     # the removed entry comes back under another spelling of the same path, with a new model
                        if remove < n:
                            old_key = by[reach[remove]]
                            fs[posixpath.join(posixpath.dirname(old_key), '.', posixpath.basename(old_key))] = newf
                            expected[reach[remove]] = (NEW_TEXT, None)
                    elif add == 5:   # a new entry whose model prints to the empty string: the (empty) file must still be created
                        key = posixpath.join(posixpath.dirname(entry_key), 'empty.bean')
                        fs[key] = parse_concrete('', M.File)
                        expected['w/empty.bean'] = ('', None)
                    elif add == 3:     # replace the model under an existing key (the last one visited)
                        victim = [r for r in rels if r in expected][-1] if any(r in expected for r in rels) else None
                        if victim is not None:
                            fs[by[victim]] = newf
                            expected[victim] = (NEW_TEXT, None)
                    else:
                        sub = 'new.bean' if add == 1 else 'nd/deeper/new.bean'
                        key = posixpath.join(posixpath.dirname(entry_key), sub)
                        fs[key] = newf
                        expected['w/' + sub] = (NEW_TEXT, None)
                        if add == 2:
                            new_dirs |= {'w/nd', 'w/nd/deeper'}
                if boom:
                    raise Boom()
        except Boom as e:
            raised = e
        if w.reads() is not None:
            r = w.reads()
            for p in files:
                check(r.get(p, 0) == (1 if p in reach else 0), what, p, 'was read', R(r.get(p, 0)), 'times')
    finally:
        w.unbind()
    if boom:
        check(raised is not None, what, 'the exception raised by the body did not propagate')
        expected = {p: (t, False) for p, t in files.items()}
        new_dirs = set()
    if twin:
        raise Fail('twin reached the assertion point')
    compare_fs(w, expected, init_dirs, new_dirs, what)


def make_single(graph, twin=False):
    def cell(spelling: int, ending: int, edit: bool, boom: bool) -> None:
        assert 0 <= spelling < len(SPELLING_NAMES) and 0 <= ending < len(ENDINGS)
        sp = SPELLING_NAMES[pick(spelling, 0, len(SPELLING_NAMES) - 1)]
        ending_name = ENDINGS[pick(ending, 0, len(ENDINGS) - 1)]
        edit, boom = bool(pick(edit, 0, 1)), bool(pick(boom, 0, 1))
        what = 'edit_file graph=%s entry=%s endings=%s edited=%s raising=%s:' % (graph, sp, ending_name, edit, boom)
        with NoTracing():
            run_single(graph, sp, ending_name, edit, boom, what, twin)

    return 'one_%s%s' % (graph, '_twin' if twin else ''), cell


def run_single(graph, sp, ending_name, edit, boom, what, twin):
    if True:
        w, files, entry, cwd = make_world(graph, sp, ending_name)
        try:
            init_dirs = w.dirs()
            ed = editor_lib.Editor(ParserShim())
            w.bind(editor_lib)
            raised = None
            try:
                try:
                    with ed.edit_file(entry) as f:
                        if edit:
                            edit_account(f)
                        if boom:
                            raise Boom()
                except Boom as e:
                    raised = e
                if w.reads() is not None:
                    r = w.reads()
                    for p in files:
                        check(r.get(p, 0) == (1 if p == 'w/main.bean' else 0), what, p, 'was read', R(r.get(p, 0)), 'times')
            finally:
                w.unbind()
            expected = {p: (t, False) for p, t in files.items()}
            if boom:
                check(raised is not None, what, 'the exception raised by the body did not propagate')
            elif edit:
                expected['w/main.bean'] = (files['w/main.bean'].replace('Assets:Old', 'Assets:New'), None)
            if twin:
                raise Fail('twin reached the assertion point')
            compare_fs(w, expected, init_dirs, set(), what)
        finally:
            w.close()


def rename_account(f):
    """One edit of the model: Assets:Old -> Assets:New, or (second time) Assets:New -> Assets:Newer; returns the text transformer."""
    for d in f.raw_directives:
        if isinstance(d, M.Open) and d.account in ('Assets:Old', 'Assets:New'):
            old, new = d.account, ('Assets:New' if d.account == 'Assets:Old' else 'Assets:Newer')
            d.account = new
            return lambda t: t.replace(old, new)
    raise Fail('scaffold directive not found')


def make_twice(api, graph, twin=False):
    """The SAME Editor object runs two blocks on the same entry, one after the other: each block may edit and may raise.  What is
    on disk afterwards is determined block by block from what was on disk before it (a raising block leaves nothing behind, in
    particular nothing that a later block could write out); a block that edits nothing rewrites nothing."""
    target = 'w/main.bean' if api == 'edit_file' else 'w/a.bean'

    def cell(spelling: int, ending: int, e1: bool, b1: bool, e2: bool, b2: bool) -> None:
        assert 0 <= spelling < len(SPELLING_NAMES) and 0 <= ending < len(ENDINGS)
        sp = SPELLING_NAMES[pick(spelling, 0, len(SPELLING_NAMES) - 1)]
        ending_name = ENDINGS[pick(ending, 0, len(ENDINGS) - 1)]
        e1, b1, e2, b2 = bool(pick(e1, 0, 1)), bool(pick(b1, 0, 1)), bool(pick(e2, 0, 1)), bool(pick(b2, 0, 1))
        what = '%s twice with one Editor, graph=%s entry=%s endings=%s: block 1 edited=%s raising=%s, block 2 edited=%s raising=%s:' % (api, graph, sp, ending_name, e1, b1, e2, b2)
        with NoTracing():
            w, files, entry, cwd = make_world(graph, sp, ending_name)
            try:
                init_dirs = w.dirs()
                ed = editor_lib.Editor(ParserShim())
                w.bind(editor_lib)
                disk = dict(files)
                written = False
                try:
                    for edit, boom in ((e1, b1), (e2, b2)):
                        fn = None
                        before_block = w.snapshot()
                        try:
                            if api == 'edit_file':
                                with ed.edit_file(entry) as f:
                                    if edit:
                                        fn = rename_account(f)
                                    if boom:
                                        raise Boom()
                            else:
                                with ed.edit_file_recursive(entry) as fs:
                                    key = next(k for k in fs if rel_of_key(w, cwd, k) == target)
                                    if edit:
                                        fn = rename_account(fs[key])
                                    if boom:
                                        raise Boom()
                        except Boom:
                            fn = None
                        if fn is not None:
                            disk[target] = fn(disk[target])
                            written = True
                        snap = w.snapshot()
                        for p_, t in disk.items():
                            check(snap[p_][0] == t, what, 'after a block', p_, 'holds', R(snap[p_][0]), 'expected', R(t))
                            if fn is None:
                                check(snap[p_][1] == before_block[p_][1], what, p_, 'was rewritten by a block that changed nothing (or raised)')
                finally:
                    w.unbind()
                if twin:
                    raise Fail('twin reached the assertion point')
                compare_fs(w, {p_: (t, None if (written and p_ == target) else False) for p_, t in disk.items()}, init_dirs, set(), what)
            finally:
                w.close()

    return 'twice_%s_%s%s' % (api, graph, '_twin' if twin else ''), cell


def make_nomatch():
    def cell(spelling: int, ending: int) -> None:
        assert 0 <= spelling < len(SPELLING_NAMES) and 0 <= ending < len(ENDINGS)
        sp = SPELLING_NAMES[pick(spelling, 0, len(SPELLING_NAMES) - 1)]
        ending_name = ENDINGS[pick(ending, 0, len(ENDINGS) - 1)]
        what = 'include without a match, entry=%s endings=%s:' % (sp, ending_name)
        with NoTracing():
            run_nomatch(sp, ending_name, what)

    return 'nomatch', cell


def run_nomatch(sp, ending_name, what):
    if True:
        w, files, entry, cwd = make_world('nomatch', sp, ending_name)
        try:
            init_dirs = w.dirs()
            ed = editor_lib.Editor(ParserShim())
            w.bind(editor_lib)
            err = None
            try:
                try:
                    with ed.edit_file_recursive(entry) as fs:
                        raise Fail(what + ' the body ran although an include matches nothing')
                except ValueError as e:
                    err = e
            finally:
                w.unbind()
            check(err is not None, what, 'no error')
            msg = str(err)
            check("'missing*.bean'" in msg and 'a.bean:' in msg, what, 'message does not name the pattern and the including file', R(msg))
            line = msg.rsplit(':', 1)[1].rstrip(')')
            check(line in ('0', '1'), what, 'the include is on the first line of a.bean, the message says line', R(line))
            compare_fs(w, {p: (t, False) for p, t in files.items()}, init_dirs, set(), what)
        finally:
            w.close()


# -- content cells: one free code point in the file on disk ----------------------------------------------------------
CONTENT = {
    'lf': 'pushtag #a\n2000-01-02 open Assets:Old\n; c\n',
    'crlf': 'pushtag #a\r\n2000-01-02 open Assets:Old\r\n',
    'nofinal': '; c\n2000-01-02 open Assets:Old',
}


def content_positions(text):
    out = {0, len(text)}
    for i, ch in enumerate(text):
        if ch in '\r\n':
            out.add(i)
            out.add(i + 1)
    return sorted(out)


def make_content(tname, pos, api, twin=False):
    text = CONTENT[tname]
    pre, post = text[:pos], text[pos:]

    def cell(c0: int) -> None:
        assert 0 <= c0 <= MAXCP and not (0xD800 <= c0 <= 0xDFFF)      # a file on disk is a sequence of encodable characters
        s = build(pre, [c0], post)
        what = 'file %r with one character inserted at offset %d, via %s:' % (text, pos, api)
        w = fsenv.World({'w/main.bean': s, OTHER: 'x\r\n'}, cwd='w')
        try:
            ed = editor_lib.Editor(ParserShim())
            w.bind(editor_lib)
            ok = False
            old = None
            try:
                try:
                    if api == 'edit_file':
                        with ed.edit_file('main.bean') as f:
                            ok = True
                            old = edit_open(f)
                    else:
                        with ed.edit_file_recursive('main.bean') as fs:
                            ok = True
                            old = edit_open(fs['main.bean'])
                except Exception as e:
                    if isinstance(e, Fail) or ok:
                        raise
                    if not (type(e).__module__.startswith('lark') or isinstance(e, ValueError)):
                        raise Fail(what + ' unexpected error %r' % (e,))
            finally:
                w.unbind()
            snap = w.snapshot()
            if twin and ok:
                raise Fail('twin reached the assertion point')
            if ok:
                # the inserted character may have become part of the account name; expected = original with the edited account replaced
                want = expected_after_edit(s, old)
                check(snap['w/main.bean'][0] == want, what, 'file is', R(snap['w/main.bean'][0]), 'expected', R(want))
                if old is None:
                    check(not snap['w/main.bean'][1], what, 'the file was rewritten although nothing was edited')
            else:
                check(snap['w/main.bean'][0] == s and not snap['w/main.bean'][1], what, 'a file that does not parse was modified')
            check(snap[OTHER] == ('x\r\n', 0), what, 'an unrelated file was touched')
            check(len(snap) == 2, what, 'files were created or deleted', R(sorted(snap)))
        finally:
            w.close()

    return 'content_%s_p%02d_%s%s' % (tname, pos, api, '_twin' if twin else ''), cell


def edit_open(f):
    """Renames the account of the first `open` directive; returns (offset, length) of the old account token in the text
    (the inserted character may have become part of the name -- the lexer decides, the token says)."""
    for d in f.raw_directives:
        if isinstance(d, M.Open):
            tok = d.raw_account
            off = 0
            for t in f.token_store:
                if t is tok:
                    break
                off += len(t.raw_text)
            n = len(tok.raw_text)
            d.account = 'Assets:New'
            return off, n
    return None       # the inserted character turned the line into something else (e.g. an ignored line): no edit


def expected_after_edit(s, old):
    if old is None:
        return s
    off, n = old
    return s[:off] + 'Assets:New' + s[off + n:]


CELLS = {}


def _reg(name_fn, tiers, timeout, family, bounds, twin=False, cost=None):
    name, fn = name_fn
    assert name not in CELLS, 'duplicate cell name ' + name
    CELLS[name] = dict(fn=fn, tiers=tiers, timeout=timeout, family=family, bounds=bounds, twin=twin, cost=cost or timeout, path_timeout=120)


Q, T = ('quick', 'thorough'), ('thorough',)
QUICK_PAIRS = {('chain', 'bare'), ('chain', 'abs'), ('glob', 'dot'), ('rglob', 'fromroot'), ('cycle', 'updown'), ('cycle_up', 'outside'), ('selfglob', 'bare'),
               ('diamond', 'pathobj'), ('respell', 'bare'), ('overlap', 'fromroot'), ('single', 'bare'), ('single', 'outside')}
for _g in GRAPHS:
    for _s in SPELLINGS:
        _tier = {'C16': Q if (_g, _s) in QUICK_PAIRS else T}
        _b = ('edit_file_recursive on include graph %r entered as %r; symbolic: line-ending pattern (%%s), subset of reachable files edited (2^n), '
              'entry removed (n+1), entry added (bare name, new nested directory, empty model) / replaced / re-added under another spelling (6), body raising (2)' % (_g, _s))
        if len(GRAPHS[_g]['reach']) >= 4:       # split by line-ending pattern: cells are the unit of parallelism
            for _e in range(len(ENDINGS)):
                _reg(make_recursive(_g, _s, fixed_ending=_e), _tier, 900, 'recursive', _b % ENDINGS[_e], cost=400)
        else:
            _reg(make_recursive(_g, _s), _tier, 900, 'recursive', _b % '5', cost=100 * 2 ** len(GRAPHS[_g]['reach']))
for _g in ('single', 'chain', 'glob'):
    _reg(make_single(_g), {'C16': Q}, 600, 'single', 'edit_file on graph %r; symbolic: path spelling (7), line endings (5), edited or not, body raising' % _g, cost=60)
for _api, _g in (('edit_file', 'single'), ('edit_file_recursive', 'chain'), ('edit_file', 'chain'), ('edit_file_recursive', 'diamond')):
    _reg(make_twice(_api, _g), {'C16': Q if _g in ('single', 'chain') and (_api, _g) != ('edit_file', 'chain') else T}, 600, 'twice',
         '%s on graph %r run twice by the SAME Editor: symbolic path spelling (7), line endings (5), each block edits or not and raises or not' % (_api, _g), cost=100)
_reg(make_twice('edit_file', 'single', twin=True), {'C16': Q}, 120, 'twice', 'vacuity twin', twin=True, cost=1)
_reg(make_nomatch(), {'C16': Q}, 600, 'nomatch', 'include pattern without a match: ValueError naming file and line, nothing touched; symbolic: spelling, endings', cost=30)
_reg(make_recursive('chain', 'bare', twin=True), {'C16': Q}, 300, 'recursive', 'vacuity twin', twin=True, cost=5)
_reg(make_single('single', twin=True), {'C16': Q}, 300, 'single', 'vacuity twin', twin=True, cost=5)
QUICK_CONTENT = {('lf', 10), ('crlf', 10), ('crlf', 12), ('nofinal', 4)}     # ('nofinal', 30) extends the account name: > 2300 paths, thorough only
for _t, _text in CONTENT.items():
    for _pos in content_positions(_text):
        for _api in ('edit_file', 'edit_file_recursive'):
            quick = (_t, _pos) in QUICK_CONTENT and _api == 'edit_file'
            _reg(make_content(_t, _pos, _api), {'C16': Q if quick else T}, 600 if quick else 1500, 'content',
                 'file text %r with 1 symbolic code point (full Unicode without surrogates) inserted at offset %d, read/parsed/edited/printed/written through %s'
                 % (_text, _pos, _api), cost=300)
_reg(make_content('lf', 10, 'edit_file', twin=True), {'C16': Q}, 300, 'content', 'vacuity twin', twin=True, cost=5)

FILES = ['autobean_refactor/editor.py', 'autobean_refactor/printer.py', 'autobean_refactor/parser.py']
ENCODES = ['autobean_refactor/editor.py: Editor.edit_file, Editor.edit_file_recursive, _get_include_paths',
           'autobean_refactor/printer.py: print_model', 'autobean_refactor/parser.py: Parser.parse (untraced on concrete texts; symbolic through symre in content cells)',
           'stdlib (real code, private copies bound to the model): glob.glob/_iglob/_glob0/_glob1/_glob2/_rlistdir, pathlib.Path.read_text/write_text/open/unlink/exists, os.path.normpath/join/dirname']
STUBS = ['file system = symx.fsenv.ModelFS (regular files and directories, no symlinks, UTF-8 text): open() with the documented text-mode newline translation '
         '(newline=None: CRLF and CR read as LF, LF written as os.linesep; newline="": untranslated), scandir/stat/lstat/unlink/mkdir/makedirs/getcwd by their POSIX '
         'contract; validated against a real directory on every run (198 observations) and every counterexample is replayed on a real temporary directory',
         'modification time = a per-file counter bumped whenever the file is opened for writing (replay: mtime_ns against a fixed old timestamp)',
         'lark Scanner.match / PostLex split regex interpreted by symx.symre in content cells (validated against re at every run)']
OUTSIDE = ['content cells whose free character extends an account name (end of Assets:Old) explore > 2300 lexer paths and stay inconclusive within 1500 s (reported as such); symbolic links, permissions, non-UTF-8 files, concurrent writers, failures of write() itself (disk full) and partial writes; include patterns that are absolute paths; '
           'more than one free character in a file; include graphs other than the 10 listed; more than one entry removed or added per block']


def selftest():
    ok, detail = fsenv.selftest()
    if not ok:
        return ok, detail
    return lexenv.selftest()
