"""C07/C08 -- TokenStore against a plain list, with positions.

Cell families
  step_<lf>_<sizes>   inductive step: pre-state = store with the given block layout (built through the
                      public API), tokens with SYMBOLIC sizes; one symbolic splice-class operation;
                      oracle = plain list + independent position fold + representation invariant.
  upd_<lf>_<sizes>    Token.raw_text = ... (TokenStore.update) on a symbolic token with symbolic old/new text
  ft_<lf>             TokenStore.from_tokens(n) for symbolic n, then one symbolic operation
  lemma_*             _token_size / Position laws on symbolic short strings
"""
from symx.env import ts, set_load_factor, NoTracing, realize, check, Fail, NATIVE, Acc, pick

Position = ts.Position


class SizedToken(ts.Token):
    """A token whose extent is given directly (the store never looks at the text, only at .size)."""
    def __init__(self, line, column, name):
        self._raw_text = name
        self.store_handle = None
        self.size = Position(line=line, column=column)


def fold(sizes):
    """Independent oracle: start position of each token from the (line, column) extents."""
    out = []
    line = 0
    col = 0
    for (l, c) in sizes:
        out.append((line, col))
        if l != 0:
            line = line + l
            col = c
        else:
            col = col + c
    return out, (line, col)


def invariant(store, ref):
    """Representation invariant + refinement of the plain list.  The structural part touches no symbolic value
    (identities, handles, indexes) and runs untraced; the cached extents are compared under tracing."""
    with NoTracing():
        check(store._len == len(ref), 'len', store._len, len(ref))
        pos = 0
        check(len(store._blocks) >= 1, 'no blocks')
        for bi, b in enumerate(store._blocks):
            check(b.index == bi, 'block index', bi, b.index)
            check(b.store is store, 'block store')
            check(len(b.tokens) > 0 or len(store._blocks) == 1, 'empty block', bi)
            check(len(b.tokens) < ts._DOUBLE_LOAD_FACTOR, 'oversized block', bi, len(b.tokens))
            for j, t in enumerate(b.tokens):
                check(pos < len(ref) and t is ref[pos], 'token order at', pos)
                h = t.store_handle
                check(h is not None and h.block is b and h.index == j, 'handle of', pos)
                pos += 1
        check(pos == len(ref), 'token count', pos, len(ref))
        blocks = list(store._blocks)
    acc = Acc()
    for bi, b in enumerate(blocks):
        bl = 0
        bc = 0
        lni = -1
        for j, t in enumerate(b.tokens):
            if t.size.line != 0:
                bl = bl + t.size.line
                bc = t.size.column
                lni = j
            else:
                bc = bc + t.size.column
        acc.eq(b.size.line, bl, 'block size.line cache of block', bi)
        acc.eq(b.size.column, bc, 'block size.column cache of block', bi)
        acc.eq(b.last_newline_index, lni, 'last_newline_index of block', bi)
    acc.done('cached block extents differ from recomputation')


def api(store, ref):
    n = len(ref)
    with NoTracing():
        got = list(store)
        check(len(got) == n and len(store) == n, 'iteration length', len(got), n)
        for i, t in enumerate(ref):
            check(got[i] is t, 'iteration order at', i)
            check(store.get_index(t) == i, 'get_index', i, store.get_index(t))
            check(store.get_prev(t) is (ref[i - 1] if i else None), 'get_prev', i)
            check(store.get_next(t) is (ref[i + 1] if i + 1 < n else None), 'get_next', i)
        check(store.get_first() is (ref[0] if n else None), 'get_first')
        check(store.get_last() is (ref[-1] if n else None), 'get_last')
        for x in range(n):
            for y in range(x, n):
                sub = list(store.iter(ref[x], ref[y]))
                check(len(sub) == y - x + 1, 'iter length', x, y, len(sub))
                for i in range(len(sub)):
                    check(sub[i] is ref[x + i], 'iter order', x, y, i)
    starts, _ = fold([(t.size.line, t.size.column) for t in ref])
    acc = Acc()
    for i, t in enumerate(ref):
        p = store.get_position(t)
        acc.eq(p.line, starts[i][0], 'get_position().line of token', i)
        acc.eq(p.column, starts[i][1], 'get_position().column of token', i)
    acc.done('get_position differs from the position computed from the token extents')


def build_layout(lf, sizes, tokens):
    """Build a store with block sizes `sizes` through the public API only.

    from_tokens(m*lf) gives m blocks of lf tokens; each block is then grown (insert_after inside the
    block) or shrunk (remove inside the block), right to left so earlier edits do not shift later ones.
    Returns (store, ref) with ref = the plain-list picture.
    """
    m = len(sizes)
    it = iter(tokens)
    base = [[next(it) for _ in range(lf)] for _ in range(m)]
    extra = [[next(it) for _ in range(max(0, s - lf))] for s in sizes]
    store = ts.TokenStore.from_tokens([t for blk in base for t in blk])
    ref_blocks = [list(b) for b in base]
    for bi in reversed(range(m)):
        s = sizes[bi]
        if s > lf:
            store.insert_after(ref_blocks[bi][-1], extra[bi])
            ref_blocks[bi].extend(extra[bi])
        elif s < lf:
            for _ in range(lf - s):
                store.remove(ref_blocks[bi].pop())
    ref = [t for blk in ref_blocks for t in blk]
    return store, ref


def n_tokens_needed(lf, sizes):
    return len(sizes) * lf + sum(max(0, s - lf) for s in sizes)


def apply_op(store, ref, a, b, new, via):
    """One splice-class operation through the public API; returns the new reference list."""
    n = len(ref)
    k = len(new)
    if a == b:
        if via == 0 and a < n:
            store.insert_before(ref[a], new)
        elif via == 1 and a > 0:
            store.insert_after(ref[a - 1], new)
        elif via == 2 and a == 0:
            store.insert_before(None, new)
        elif a == 0:
            store.insert_after(None, new)
        elif a < n:
            store.splice(new, ref[a])
        else:
            store.insert_after(ref[a - 1], new)
    else:
        if via == 0 and k == 0:
            if b == a + 1:
                store.remove(ref[a])
            else:
                store.remove(ref[a], ref[b - 1])
        elif via == 1 and k == 1 and b == a + 1:
            store.replace(ref[a], new[0])
        else:
            store.splice(new, ref[a], ref[b - 1])
    return [ref[i] for i in range(a)] + list(new) + [ref[i] for i in range(b, n)]


def make_step(lf, sizes, max_k, max_nl, via_mode, twin=False):
    """via_mode: 'splice' = always TokenStore.splice / insert_after at the end; 'all' = symbolic API variant."""
    sizes = tuple(sizes)
    n = sum(sizes)
    need = n_tokens_needed(lf, sizes)

    def cell(a: int, b: int, k: int, via: int, p: int, q: int, l1: int, l2: int,
             c0: int, c1: int, c2: int, c3: int, nl0: bool, nl1: bool) -> None:
        assert 0 <= a <= b <= n and 0 <= k <= max_k
        assert (0 <= via <= 2) if via_mode == 'all' else via == 3
        assert -1 <= p < need and ((q == -2) if max_nl < 2 else (p < q <= need)) and ((p == -1) if max_nl < 1 else True)
        assert 1 <= l1 and 1 <= l2
        assert 0 <= c0 and 0 <= c1 and 0 <= c2 and 0 <= c3
        set_load_factor(lf)
        cols = [c0, c1, c2, c3]
        lines = [0] * (need + 1)
        if max_nl >= 1:
            p = pick(p, -1, need - 1)
            if p >= 0:
                lines[p] = l1
        if max_nl >= 2:
            q = pick(q, p + 1, need)
            lines[q] = l2
        toks = [SizedToken(lines[i], cols[i % 4] + (i // 4), 't%d' % i) for i in range(need)]
        store, ref = build_layout(lf, sizes, toks)
        if len(ref) != n or [len(blk.tokens) for blk in store._blocks] != list(sizes):
            return  # layout not produced by the public API (never happens for sizes in (half, 2lf))
        new = [SizedToken((l1 if nl else 0), cols[(j + 1) % 4], 'n%d' % j)
               for j, nl in zip(range(k), [nl0, nl1] + [False] * 16)]
        a = pick(a, 0, n)   # case-split once; afterwards list bookkeeping is concrete
        b = pick(b, a, n)
        k = pick(k, 0, max_k)
        removed = [ref[i] for i in range(a, b)]
        api(store, ref)      # every query is asked BEFORE the operation too: whatever the store memoises is part of the pre-state
        ref2 = apply_op(store, ref, a, b, new, via)
        if twin:
            raise Fail('twin reached the assertion point')
        invariant(store, ref2)
        api(store, ref2)
        for t in removed:
            check(t.store_handle is None, 'removed token still has a handle')

    return 'step_%d_%s_k%d_nl%d_%s%s' % (lf, '_'.join(map(str, sizes)), max_k, max_nl, via_mode, '_twin' if twin else ''), cell



def make_hist2(lf, sizes, twin=False):
    """observe, operation, operation, observe: two splice-class operations with NO query in between, after every query was
    asked once (so that anything the store memoises between queries is exposed: a cache keyed on something two operations
    can restore -- length, block count -- goes stale exactly here)."""
    sizes = tuple(sizes)
    n = sum(sizes)
    need = n_tokens_needed(lf, sizes)

    def cell(a: int, b: int, k: int, a2: int, b2: int, k2: int) -> None:
        assert 0 <= a <= b <= n and 0 <= k <= 1 and 0 <= k2 <= 1
        assert 0 <= a2 <= b2 <= n + 1
        set_load_factor(lf)
        a = pick(a, 0, n)
        b = pick(b, a, n)
        k = pick(k, 0, 1)
        with NoTracing():
            toks = [SizedToken(1 if i % 3 == 1 else 0, i % 4, 't%d' % i) for i in range(need)]
            store, ref = build_layout(lf, sizes, toks)
            if len(ref) != n or [len(blk.tokens) for blk in store._blocks] != list(sizes):
                return
            api(store, ref)
            ref1 = apply_op(store, ref, a, b, [SizedToken(0, 2, 'n%d' % j) for j in range(k)], 3)
        n1 = n - (b - a) + k
        if not (b2 <= n1):
            return
        a2 = pick(a2, 0, n1)
        b2 = pick(b2, a2, n1)
        k2 = pick(k2, 0, 1)
        with NoTracing():
            ref2 = apply_op(store, ref1, a2, b2, [SizedToken(1, 1, 'm%d' % j) for j in range(k2)], 3)
            if twin:
                raise Fail('twin reached the assertion point')
            invariant(store, ref2)
            api(store, ref2)

    return 'hist2_%d_%s%s' % (lf, '_'.join(map(str, sizes)), '_twin' if twin else ''), cell


TEXTS = ['', 'x', '\n', 'ab\ncd', 'q\n', '\n\nzz']


def text_positions(ref):
    out = []
    text = ''
    for t in ref:
        out.append((text.count('\n'), len(text) - text.rfind('\n') - 1))
        text += t.raw_text
    return out


def api_text(store, ref):
    n = len(ref)
    got = list(store)
    check(len(got) == n and len(store) == n, 'iteration length', len(got), n)
    starts = text_positions(ref)
    for i, t in enumerate(ref):
        check(got[i] is t, 'iteration order at', i)
        check(store.get_index(t) == i, 'get_index', i, store.get_index(t))
        p = store.get_position(t)
        check((p.line, p.column) == starts[i], 'get_position', i, (p.line, p.column), starts[i], [x.raw_text for x in ref])


def make_update(lf, sizes, second, twin=False):
    """Token.raw_text = <symbolic text> (TokenStore.update) on token i.

    Token i first holds a symbolic 2-code-point text, then receives a symbolic 3-code-point text (any Unicode, so
    line breaks may appear, disappear or move); one other token (place p) bears a newline.  With `second`, another
    token j then receives a symbolic 1-code-point text."""
    sizes = tuple(sizes)
    n = sum(sizes)
    need = n_tokens_needed(lf, sizes)

    def cell(i: int, p: int, j: int, o0: int, o1: int, n0: int, n1: int, n2: int, m0: int) -> None:
        assert 0 <= i < n and -1 <= p < need and (0 <= j < n if second else j == -1)
        assert 0 <= o0 <= 0x10FFFF and 0 <= o1 <= 0x10FFFF
        assert 0 <= n0 <= 0x10FFFF and 0 <= n1 <= 0x10FFFF and 0 <= n2 <= 0x10FFFF and 0 <= m0 <= 0x10FFFF
        set_load_factor(lf)
        i = pick(i, 0, n - 1)
        p = pick(p, -1, need - 1)
        j = pick(j, -1, n - 1)
        toks = [ts.Token('u\nvw' if k == p else ('xy' if k % 3 else '')) for k in range(need)]
        store, ref = build_layout(lf, sizes, toks)
        if len(ref) != n or [len(blk.tokens) for blk in store._blocks] != list(sizes):
            return
        ref[i].raw_text = chr(o0) + chr(o1)            # gives token i its symbolic 'old' text
        ref[i].raw_text = chr(n0) + chr(n1) + chr(n2)  # the update under test
        if j >= 0:
            ref[j].raw_text = chr(m0)
        if twin:
            raise Fail('twin reached the assertion point')
        acc = Acc()
        for t in ref:   # token extents describe the token text (text -> extent itself: lemma_size cells)
            z = ts._token_size(t.raw_text)
            acc.eq(t.size.line, z.line, 'Token.size.line')
            acc.eq(t.size.column, z.column, 'Token.size.column')
        acc.done('Token.size does not describe Token.raw_text')
        invariant(store, ref)
        api(store, ref)

    return 'upd_%d_%s%s%s' % (lf, '_'.join(map(str, sizes)), '_2nd' if second else '', '_twin' if twin else ''), cell


def make_from_tokens(lf, n, max_k, twin=False):
    def cell(a: int, b: int, k: int, p: int, l1: int, c0: int, c1: int, nl0: bool) -> None:
        assert 0 <= a <= b <= n and 0 <= k <= max_k
        assert -1 <= p < n and 1 <= l1 and 0 <= c0 and 0 <= c1
        set_load_factor(lf)
        a = pick(a, 0, n)
        b = pick(b, a, n)
        k = pick(k, 0, max_k)
        p = pick(p, -1, n - 1)
        toks = [SizedToken(l1 if i == p else 0, (c0 if i % 2 else c1) + i, 't%d' % i) for i in range(n)]
        store = ts.TokenStore.from_tokens(list(toks))
        ref = list(toks)
        invariant(store, ref)
        api(store, ref)
        new = [SizedToken((l1 if (nl0 and j == 0) else 0), c0 + j, 'n%d' % j) for j in range(k)]
        removed = [ref[i] for i in range(a, b)]
        ref2 = apply_op(store, ref, a, b, new, 3)
        if twin:
            raise Fail('twin reached the assertion point')
        invariant(store, ref2)
        api(store, ref2)
        for t in removed:
            check(t.store_handle is None, 'removed token still has a handle')

    return 'ft_%d_n%d_k%d%s' % (lf, n, max_k, '_twin' if twin else ''), cell


def make_refusal(lf):
    """Tokens already in a store are refused by from_tokens/insert and nothing changes (store-level atomicity)."""
    def cell(n: int, a: int, which: int) -> None:
        assert 2 <= n <= 5 and 0 <= a < n and 0 <= which < n and which != a
        set_load_factor(lf)
        n = pick(n, 2, 5)
        a = pick(a, 0, n - 1)
        which = pick(which, 0, n - 1)
        toks = [SizedToken(0, 1, 't%d' % i) for i in range(n)]
        store = ts.TokenStore.from_tokens(list(toks))
        try:
            store.insert_after(toks[a], [toks[which]])
        except ValueError:
            invariant(store, toks)
            api(store, toks)
            return
        raise Fail('re-inserting a token that is already in the store was accepted')

    return 'refuse_%d' % lf, cell


def make_refusal_replace(lf):
    """A call that REPLACES a non-empty range with a token that lives elsewhere (later in the same store, or at any place
    of another store - also at a position that coincides with the replaced range) must be refused, and both stores
    must be exactly as before: same tokens, every handle valid, every query answering."""
    def cell(n: int, a: int, b: int, which: int, other: bool, api_kind: int) -> None:
        assert 3 <= n <= 7 and 0 <= a <= b < n and 0 <= which < n and 0 <= api_kind <= 2
        set_load_factor(lf)
        n, a, b = pick(n, 3, 7), pick(a, 0, 6), pick(b, 0, 6)
        which, other, api_kind = pick(which, 0, 6), bool(pick(other, 0, 1)), pick(api_kind, 0, 2)
        toks = [SizedToken(0, 1, 't%d' % i) for i in range(n)]
        store = ts.TokenStore.from_tokens(list(toks))
        toks2 = [SizedToken(0, 1, 'u%d' % i) for i in range(n)]
        store2 = ts.TokenStore.from_tokens(list(toks2))
        if other:
            donor = toks2[which]
        else:
            if a <= which <= b:
                return          # re-using a token of the replaced range itself is allowed
            donor = toks[which]
        fresh = SizedToken(0, 1, 'f')
        try:
            if api_kind == 0:
                if a != b:
                    return
                store.replace(toks[a], donor)
            elif api_kind == 1:
                store.splice([donor], toks[a], toks[b])
            else:
                store.splice([fresh, donor], toks[a], toks[b])
        except ValueError:
            invariant(store, toks)
            api(store, toks)
            invariant(store2, toks2)
            api(store2, toks2)
            check(fresh.store_handle is None, 'a free token of the refused batch was consumed')
            return
        raise Fail('a token that already lives %s was accepted by a replacing call' % ('in another store' if other else 'elsewhere in the store'))

    return 'refuse_replace_%d' % lf, cell


def lemma_position_assoc(a: int, b: int, c: int, d: int, e: int, f: int) -> None:
    assert a >= 0 and b >= 0 and c >= 0 and d >= 0 and e >= 0 and f >= 0
    p, q, r = Position(a, b), Position(c, d), Position(e, f)
    x = (p + q) + r
    y = p + (q + r)
    check(x.line == y.line and x.column == y.column, 'Position + is not associative', (a, b, c, d, e, f))
    check(p.line == a and p.column == b and q.line == c and q.column == d, '+ mutated an operand')


def make_lemma_size(n, m):
    def cell(c0: int, c1: int, c2: int, c3: int, c4: int, c5: int) -> None:
        assert 0 <= c0 <= 0x10FFFF and 0 <= c1 <= 0x10FFFF and 0 <= c2 <= 0x10FFFF
        assert 0 <= c3 <= 0x10FFFF and 0 <= c4 <= 0x10FFFF and 0 <= c5 <= 0x10FFFF
        cps = [c0, c1, c2, c3, c4, c5]
        s1 = ''
        for c in cps[:n]:
            s1 = s1 + chr(c)
        s2 = ''
        for c in cps[n:n + m]:
            s2 = s2 + chr(c)

        def ref(cs):
            line = 0
            col = 0
            for c in cs:
                if c == 10:
                    line += 1
                    col = 0
                else:
                    col += 1
            return line, col
        z1 = ts._token_size(s1)
        check((z1.line, z1.column) == ref(cps[:n]), '_token_size', cps[:n], (z1.line, z1.column))
        z2 = ts._token_size(s2)
        z12 = ts._token_size(s1 + s2)
        zz = z1 + z2
        check((zz.line, zz.column) == (z12.line, z12.column), 'size(a)+size(b) != size(a+b)', cps)

    return 'lemma_size_%d_%d' % (n, m), cell


CELLS = {}


def _reg(name_fn, tiers, timeout, family, bounds, twin=False, cost=None):
    name, fn = name_fn
    assert name not in CELLS, 'duplicate cell name ' + name
    CELLS[name] = dict(fn=fn, tiers=tiers, timeout=timeout, family=family, bounds=bounds, twin=twin, cost=cost or timeout)


def _layouts(lf, m, boundary=False):
    import itertools
    half = lf // 2
    vals = sorted({half + 1, lf, 2 * lf - 1}) if boundary else list(range(half + 1, 2 * lf))
    return [s for s in itertools.product(vals, repeat=m)]


Q, T = ('quick', 'thorough'), ('thorough',)
# --- C07: structure (no newline tokens), every API variant -------------------------------------------------------
for _m in (1, 2, 3):
    for _s in _layouts(2, _m):
        _reg(make_step(2, _s, 2, 0, 'all'), {'C07': Q}, 400, 'step/structure',
             'lf=2 blocks=%s, any a<=b, k<=2 inserted, all API variants' % (_s,), cost=sum(_s) ** 2)
for _m in (1, 2):
    for _s in _layouts(3, _m):
        _reg(make_step(3, _s, 2, 0, 'all'), {'C07': Q}, 400, 'step/structure',
             'lf=3 blocks=%s, any a<=b, k<=2 inserted, all API variants' % (_s,), cost=sum(_s) ** 2)
for _s in _layouts(3, 3):
    _reg(make_step(3, _s, 2, 0, 'all'), {'C07': T}, 900, 'step/structure',
         'lf=3 blocks=%s, any a<=b, k<=2 inserted, all API variants' % (_s,), cost=sum(_s) ** 2)
for _lf in (4, 5):
    for _m in (2, 3):
        for _s in _layouts(_lf, _m, boundary=True):
            _reg(make_step(_lf, _s, 1, 0, 'splice'), {'C07': T}, 1200, 'step/structure',
                 'lf=%d blocks=%s (boundary sizes), any a<=b, k<=1' % (_lf, _s), cost=sum(_s) ** 2)
# large insertions force _split_block/_build_blocks on the spliced block
for _s in [(2, 3), (3, 2, 2)]:
    _reg(make_step(2, _s, 5, 0, 'splice'), {'C07': Q}, 400, 'step/split', 'lf=2 blocks=%s, k<=5 inserted (forces splits)' % (_s,), cost=60)
for _s in [(3, 3, 3), (2, 2, 2)]:
    _reg(make_step(2, _s, 5, 0, 'splice'), {'C07': T}, 900, 'step/split', 'lf=2 blocks=%s, k<=5 inserted (forces splits)' % (_s,))
for _s in [(3, 4), (5, 2, 3)]:
    _reg(make_step(3, _s, 7, 0, 'splice'), {'C07': T}, 900, 'step/split', 'lf=3 blocks=%s, k<=7 inserted (forces splits)' % (_s,))
for _n in range(0, 9):
    _reg(make_from_tokens(2, _n, 1), {'C07': Q, 'C08': Q}, 400, 'from_tokens', 'lf=2, from_tokens(%d tokens) then one op, k<=1, <=1 newline-bearing token' % _n, cost=_n ** 3)
for _n in range(0, 10):
    _reg(make_from_tokens(3, _n, 1), {'C07': Q if _n in (0, 4, 5, 7, 9) else T}, 400, 'from_tokens', 'lf=3, from_tokens(%d tokens) then one op, k<=1' % _n, cost=_n ** 3)
for _n in range(5, 12):
    _reg(make_from_tokens(4, _n, 2), {'C07': T, 'C08': T}, 900, 'from_tokens', 'lf=4, from_tokens(%d tokens) then one op, k<=2' % _n)
_reg(make_from_tokens(2, 7, 1, twin=True), {'C07': Q}, 120, 'from_tokens', 'vacuity twin', twin=True, cost=1)
_reg(make_step(2, (2, 3, 2), 2, 0, 'all', twin=True), {'C07': Q}, 120, 'step/structure', 'vacuity twin', twin=True, cost=1)
for _s, _q in (((2, 3, 2), True), ((3, 2, 3), True), ((2, 2), False), ((3, 3, 3), False), ((2, 3, 3, 2), False)):
    _reg(make_hist2(2, _s), {'C07': Q if _q else T, 'C08': Q if _q else T}, 900, 'hist2',
         'lf=2 blocks=%s: every query, then TWO symbolic splices (any range, <=1 inserted) with no query in between, then every query' % (_s,), cost=300)
for _s in ((2, 4, 3), (4, 5), (5, 2, 2)):
    _reg(make_hist2(3, _s), {'C07': T, 'C08': T}, 1800, 'hist2', 'lf=3 blocks=%s: every query, two symbolic splices without a query in between, every query' % (_s,))
_reg(make_hist2(2, (2, 3, 2), twin=True), {'C07': Q}, 120, 'hist2', 'vacuity twin', twin=True, cost=1)
_reg(make_refusal(2), {'C07': Q, 'C19': Q}, 120, 'refusal', 'lf=2 n<=5: inserting a token already in the store', cost=5)
for _lf in (2, 3):
    _reg(make_refusal_replace(_lf), {'C07': Q, 'C19': Q}, 600, 'refusal', 'lf=%d, n<=7: replace / splice of a symbolic non-empty range by a token living later in the same store or anywhere in another store '
         '(also at a coinciding position): refused, both stores exactly as before' % _lf, cost=60)

# --- C08: positions with newline-bearing tokens (symbolic extents) ---------------------------------------------
for _m in (1, 2, 3):
    for _s in _layouts(2, _m):
        _reg(make_step(2, _s, 1, 1, 'splice'), {'C08': Q}, 900, 'step/positions',
             'lf=2 blocks=%s, any a<=b, k<=1, <=1 newline-bearing token at symbolic place, symbolic extents' % (_s,), cost=sum(_s) ** 3)
        _reg(make_step(2, _s, 2, 2, 'splice'), {'C08': T}, 3600, 'step/positions',
             'lf=2 blocks=%s, any a<=b, k<=2, <=2 newline-bearing tokens at symbolic places, symbolic extents' % (_s,), cost=sum(_s) ** 3)
for _s in _layouts(3, 2):
    _reg(make_step(3, _s, 1, 1, 'splice'), {'C08': T}, 1800, 'step/positions',
         'lf=3 blocks=%s, any a<=b, k<=1, <=1 newline-bearing token' % (_s,), cost=sum(_s) ** 3)
for _s in [(2,), (3,), (2, 3), (3, 2), (2, 2, 3)]:
    _reg(make_update(2, _s, False), {'C08': Q}, 600, 'update',
         'lf=2 blocks=%s: token i gets any 2-code-point text then any 3-code-point text (full Unicode); one other newline-bearing token' % (_s,), cost=sum(_s) ** 3)
for _s in [(3, 3, 3), (2, 3, 2), (3, 3)]:
    _reg(make_update(2, _s, False), {'C08': T}, 1800, 'update', 'lf=2 blocks=%s: symbolic raw_text update' % (_s,))
for _s in [(2, 3)]:
    _reg(make_update(2, _s, True), {'C08': T}, 3600, 'update', 'lf=2 blocks=%s: two symbolic raw_text updates' % (_s,))
for _s in [(4, 2), (2, 5, 3)]:
    _reg(make_update(3, _s, False), {'C08': T}, 1800, 'update', 'lf=3 blocks=%s: symbolic raw_text update' % (_s,))
_reg(make_update(2, (2, 3), False, twin=True), {'C08': Q}, 120, 'update', 'vacuity twin', twin=True, cost=1)
_reg(make_step(2, (2, 3, 2), 1, 1, 'splice', twin=True), {'C08': Q}, 120, 'step/positions', 'vacuity twin', twin=True, cost=1)
_reg(('lemma_position_assoc', lemma_position_assoc), {'C08': Q}, 120, 'lemma', 'Position + associative, operands unchanged: all non-negative ints (unbounded)', cost=5)
_reg(make_lemma_size(3, 2), {'C08': Q}, 300, 'lemma', '_token_size exact and additive: all strings of 3+2 code points (full Unicode)', cost=30)
_reg(make_lemma_size(3, 3), {'C08': T}, 900, 'lemma', '_token_size exact and additive: all strings of 3+3 code points (full Unicode)')

ENCODES = ['autobean_refactor/token_store.py: ' + n for n in (
    'TokenStore.from_tokens', 'TokenStore._splice', 'TokenStore.splice', 'TokenStore.insert_after', 'TokenStore.insert_before',
    'TokenStore.update', 'TokenStore.replace', 'TokenStore.remove', 'TokenStore.iter', 'TokenStore.get_index',
    'TokenStore.get_position', 'TokenStore.get_prev', 'TokenStore.get_next', 'TokenStore.get_first', 'TokenStore.get_last',
    'TokenStore.__iter__', 'TokenStore.__len__', 'TokenStore._update_block', 'TokenStore._split_block',
    'TokenStore._merge_blocks', 'TokenStore._update_block_indexes', '_build_blocks', '_StoreBlock.from_tokens',
    '_StoreBlock.rebuild', 'Position.__iadd__', 'Position.__add__', 'Token._update_raw_text', '_token_size')]
FILES = ['autobean_refactor/token_store.py']
STUBS = [
    'TokenStore load factor: module globals _LOAD_FACTOR/_DOUBLE/_HALF/_ONE_HALF set to 2..5 by the harness (the property '
    'quantifies over load factors >= 2; the constants are read at call time)',
    'step/from_tokens cells: tokens are Token subclasses whose .size (line, column) is given directly as symbolic integers; the '
    'store never reads token text, only .size; text->size is covered by the lemma_size cells and the update cells use real texts',
    'pre-states of step cells are built through the public API (from_tokens + in-block insert/remove) - every one is reachable',
]
OUTSIDE = [
    'load factors > 5; more than 3 blocks in the pre-state; more than 2 newline-bearing tokens per store in step cells',
    'histories are covered inductively: one operation from every reachable layout within the size bound, with the full '
    'representation invariant asserted afterwards (block index = position, handles, caches); layouts containing a block of '
    'size <= half are only covered where from_tokens produces them (ft cells)',
]
