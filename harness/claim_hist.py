"""Histories of comment-attribution calls (and comment insertions) on one transaction: C04, C05, C14.

Scaffold: a transaction with meta items, postings and block comments in between (LF and CRLF variants, with and without
postings), embedded between two neutral directives; attribution at parse time is a symbolic flag.  Then a history of k
steps, each a symbolic choice from

  claim / unclaim of interleaving comments on the meta list, the postings list and the file's directive list,
  auto_claim_comments on the transaction, claim / unclaim of the trailing comment of the last meta item and of the
  leading comment of the first posting (with ignore_if_already_claimed symbolic where the API has it),
  and two genuine edits (a fresh comment inserted at the head of the postings list / appended to the meta list).

After every step, by facet:
  text  (C04)  a step that is not an edit leaves the printed text and the identity, order and text of every visible
               token unchanged (whether the call succeeds or is refused)
  tree  (C05)  the structural invariant of the whole tree
  owner (C14)  every comment has at most one owner and its claimed flag says so; a refused call changes no ownership
Every selector is case-split by the solver; the history then runs on concrete objects.
"""
from symx.env import NoTracing, check, Fail, NATIVE, pick, R
from symx import docenv
from symx.docenv import text_of
from autobean_refactor import models
from harness import c14_comments as c14

M = models

SCAFFOLDS = {
    'mp': '2000-01-02 * "n"\n    aaa: 1\n    ; c1\n    Assets:Foo  1 USD\n    ; c2\n    Expenses:Bar\n',
    'mp_crlf': '2000-01-02 * "n"\r\n    aaa: 1\r\n    ; c1\r\n    Assets:Foo  1 USD\r\n    Expenses:Bar\r\n',
    'm_only_crlf': '2000-01-02 * "n"\r\n    aaa: 1\r\n    ; c1\r\n',
    'm_only': '2000-01-02 * "n"\n    aaa: 1\n    bbb: 2\n    ; c1\n\n; top\n',
    'mp2': '2000-01-02 * "n"\n    ; c0\n    aaa: 1\n    ; c1\n    Assets:Foo  1 USD\n      pm: 1\n      ; c3\n    Expenses:Bar\n    ; c4\n',
}


def _txn(f):
    return next(d for d in f.raw_directives if isinstance(d, M.Transaction))


def _last_meta(f):
    items = list(_txn(f).raw_meta)
    return items[-1] if items else None


def _first_posting(f):
    ps = list(_txn(f).raw_postings)
    return ps[0] if ps else None


# (name, is_edit, callable(file, flag)) -- flag is a symbolic bool used where the API has an optional argument
def _mk_ops():
    def claim_meta(f, b): return _txn(f).raw_meta_with_comments.claim_interleaving_comments()
    def unclaim_meta(f, b): return _txn(f).raw_meta_with_comments.unclaim_interleaving_comments()
    def claim_post(f, b): return _txn(f).raw_postings_with_comments.claim_interleaving_comments()
    def unclaim_post(f, b): return _txn(f).raw_postings_with_comments.unclaim_interleaving_comments()
    def auto(f, b): return _txn(f).auto_claim_comments()

    def meta_claim_trailing(f, b):
        m = _last_meta(f)
        return None if m is None else m.claim_trailing_comment(ignore_if_already_claimed=b)

    def meta_unclaim_trailing(f, b):
        m = _last_meta(f)
        return None if m is None else m.unclaim_trailing_comment()

    def post_claim_leading(f, b):
        p = _first_posting(f)
        return None if p is None else p.claim_leading_comment(ignore_if_already_claimed=b)

    def post_unclaim_leading(f, b):
        p = _first_posting(f)
        return None if p is None else p.unclaim_leading_comment()

    def claim_file(f, b): return f.raw_directives_with_comments.claim_interleaving_comments()
    def unclaim_file(f, b): return f.raw_directives_with_comments.unclaim_interleaving_comments()
    def _unowned(f, b):
        cs = [c for c in c14.comment_tokens(f) if not c.claimed]
        return cs + ([M.BlockComment.from_value('foreign', indent='    ')] if b else [])      # b: one comment that cannot be found is mixed in

    def claim_meta_list(f, b): return _txn(f).raw_meta_with_comments.claim_interleaving_comments(_unowned(f, b))
    def claim_post_list(f, b): return _txn(f).raw_postings_with_comments.claim_interleaving_comments(_unowned(f, b))
    def claim_file_list(f, b): return f.raw_directives_with_comments.claim_interleaving_comments(_unowned(f, b))

    def ins_post(f, b): return _txn(f).raw_postings_with_comments.insert(0, M.BlockComment.from_value('n1', indent='    '))
    def app_meta(f, b): return _txn(f).raw_meta_with_comments.append(M.BlockComment.from_value('n2', indent='    '))
    return [('claim_meta', False, claim_meta), ('unclaim_meta', False, unclaim_meta), ('claim_post', False, claim_post),
            ('unclaim_post', False, unclaim_post), ('auto', False, auto), ('meta_claim_trailing', False, meta_claim_trailing),
            ('meta_unclaim_trailing', False, meta_unclaim_trailing), ('post_claim_leading', False, post_claim_leading),
            ('post_unclaim_leading', False, post_unclaim_leading), ('claim_file', False, claim_file), ('unclaim_file', False, unclaim_file),
            ('claim_meta_list', False, claim_meta_list), ('claim_post_list', False, claim_post_list), ('claim_file_list', False, claim_file_list),
            ('ins_post', True, ins_post), ('app_meta', True, app_meta)]


OPS = _mk_ops()
N_CLAIM = 14          # the first 14 are attribution-only calls (the last three take an explicit list of comments, optionally with one that cannot be found)
FLAGGED = ('meta_claim_trailing', 'post_claim_leading', 'claim_meta_list', 'claim_post_list', 'claim_file_list')
REFUSED = (ValueError, IndexError, KeyError)


def run_history(scaf, acc, steps, flags, facet, twin):
    text = docenv.PRE + SCAFFOLDS[scaf] + docenv.POST
    f = docenv.PARSER.parse(text, M.File, auto_claim_comments=acc)
    hist = []
    for (name, is_edit, fn), b in zip(steps, flags):
        hist.append(name + ('' if not b else '(ignore)'))
        what = '%s scaffold=%s attribution-at-parse=%s history=%s:' % (facet, scaf, acc, ' -> '.join(hist))
        before_text = text_of(f)
        visible = [(t, t.raw_text) for t in f.token_store if t.raw_text]
        own_before = c14.ownership(f, what + ' before the step') if facet == 'owner' else None
        if facet == 'refuse':
            all_before = list(f.token_store)
            flags_before = [c.claimed for c in c14.comment_tokens(f)]
            dump_before = [(p_, type(x).__name__, id(x) if isinstance(x, M.RawTokenModel) else None) for p_, x in docenv.walk(f)]
        refused = False
        try:
            fn(f, b)
        except REFUSED:
            refused = True
        if facet == 'text' and not is_edit:
            check(text_of(f) == before_text, what, 'a call that is not an edit changed the printed text', R(text_of(f)), 'was', R(before_text))
            vis = [(t, t.raw_text) for t in f.token_store if t.raw_text]
            check(len(vis) == len(visible) and all(a is c and x == y for (a, x), (c, y) in zip(vis, visible)),
                  what, 'visible tokens were created, dropped, re-ordered or altered by a call that is not an edit')
        elif facet == 'refuse':
            if refused:      # C19: a refused call leaves text, tokens (zero-width ones included), tree and claimed flags exactly as they were
                check(text_of(f) == before_text, what, 'the refused call changed the printed text', R(text_of(f)))
                now = list(f.token_store)
                check(len(now) == len(all_before) and all(a is c for a, c in zip(now, all_before)), what, 'the refused call re-ordered, created or dropped tokens (zero-width ones included)')
                check([c.claimed for c in c14.comment_tokens(f)] == flags_before, what, 'the refused call changed the claimed flag of a comment')
                check([(p_, type(x).__name__, id(x) if isinstance(x, M.RawTokenModel) else None) for p_, x in docenv.walk(f)] == dump_before, what, 'the refused call changed the tree')
        elif facet == 'tree':
            docenv.tree_invariant(f, what=what)
        elif facet == 'owner':
            own = c14.ownership(f, what)
            if refused and not is_edit:
                check(own == own_before, what, 'a refused attribution call changed the ownership of comments', R(own), 'was', R(own_before))
            cs = c14.comment_tokens(f)
            check(len({id(c) for c in cs}) == len(cs), what, 'a comment token appears twice in the store')
    if twin:
        raise Fail('twin reached the assertion point')


def make_hist(scaf, k, facet, first=None, claims_only=False, twin=False):
    nops = (11 if k >= 5 else N_CLAIM) if claims_only else len(OPS)      # chains of 5: the 11 calls without an explicit comment list
    nfirst = len(first or ())

    def cell(acc: bool, o0: int, o1: int, o2: int, o3: int, o4: int, b0: bool, b1: bool, b2: bool, b3: bool, b4: bool) -> None:
        assert 0 <= o0 < nops and 0 <= o1 < nops and 0 <= o2 < nops and 0 <= o3 < nops and 0 <= o4 < nops
        assert first is None or (o0 == first[0] and (len(first) < 2 or o1 == first[1]))
        acc = bool(pick(acc, 0, 1))
        sel = list(first or ()) + [pick(o, 0, nops - 1) for o in (o0, o1, o2, o3, o4)[nfirst:k]]
        steps = [OPS[x] for x in sel]
        # the optional flag only exists for the two claim_leading/trailing calls: case-split it only there
        flags = [bool(pick(b, 0, 1)) if st[0] in FLAGGED else False
                 for st, b in zip(steps, (b0, b1, b2, b3, b4))]
        with NoTracing():
            run_history(scaf, acc, steps, flags, facet, twin)

    return 'hist_%s_%s_k%d%s%s%s' % (facet, scaf, k, '_claims' if claims_only else '', ''.join('_%d' % x for x in (first or ())), '_twin' if twin else ''), cell


CELLS = {}


def _reg(name_fn, tiers, timeout, family, bounds, twin=False, cost=None):
    name, fn = name_fn
    assert name not in CELLS, 'duplicate cell name ' + name
    CELLS[name] = dict(fn=fn, tiers=tiers, timeout=timeout, family=family, bounds=bounds, twin=twin, cost=cost or timeout)


Q, T = ('quick', 'thorough'), ('thorough',)
FACET_PROP = {'text': 'C04', 'tree': 'C05', 'owner': 'C14', 'refuse': 'C19'}
for _facet, _prop in FACET_PROP.items():
    for _scaf in SCAFFOLDS:
        _reg(make_hist(_scaf, 2, _facet), {_prop: Q}, 900, 'hist/' + _facet,
             'scaffold %r, attribution at parse symbolic, every history of 2 steps over 16 calls (14 attribution calls incl. explicit comment lists with an unfindable one mixed in, 2 comment insertions)' % _scaf, cost=60)
        for _o in range(len(OPS)):       # histories of 3 steps, split by the first call (cells are the unit of parallelism)
            _reg(make_hist(_scaf, 3, _facet, first=(_o,)), {_prop: Q if (_scaf == 'mp' or (_scaf == 'm_only_crlf' and _o in (1, 4, 11, 15))) else T}, 900, 'hist/' + _facet,
                 'scaffold %r, every history of 3 steps over 16 calls starting with %s' % (_scaf, OPS[_o][0]), cost=60)
        for _o in range(len(OPS)):
            _reg(make_hist(_scaf, 4, _facet, first=(_o,)), {_prop: T}, 1500, 'hist/' + _facet,
                 'scaffold %r, every history of 4 steps over 16 calls starting with %s' % (_scaf, OPS[_o][0]), cost=700)
    # chains of 5 attribution-only calls on the transaction with meta, comment and postings (split by the first two calls)
    for _a in (5, 6, 7, 8, 0, 1, 2, 3):
        for _b in range(11):
            quick = _facet == 'text' and (_a, _b) in ((5, 6), (7, 8))
            _reg(make_hist('mp', 5, _facet, first=(_a, _b), claims_only=True), {_prop: Q if quick else T}, 1500, 'hist5/' + _facet,
                 'scaffold mp, every history of 5 attribution-only calls starting with %s, %s' % (OPS[_a][0], OPS[_b][0]), cost=500)
    _reg(make_hist('mp', 2, _facet, twin=True), {_prop: Q}, 120, 'hist/' + _facet, 'vacuity twin', twin=True, cost=1)

FILES = ['autobean_refactor/models/internal/surrounding_comments.py', 'autobean_refactor/models/internal/interleaving_comments.py',
         'autobean_refactor/models/internal/repeated.py', 'autobean_refactor/models/internal/properties.py', 'autobean_refactor/models/block_comment.py',
         'autobean_refactor/models/generated/transaction.py', 'autobean_refactor/token_store.py']
ENCODES = ['autobean_refactor/models/internal/interleaving_comments.py: claim_interleaving_comments, unclaim_interleaving_comments, _CommentClaimer, _shift_ignored',
           'autobean_refactor/models/internal/surrounding_comments.py: claim_leading_comment, claim_trailing_comment, unclaim_*, _claim_comment',
           'autobean_refactor/models/generated/transaction.py: auto_claim_comments']
STUBS = ['the history runs untraced once every selector (attribution mode, call codes, optional flags) has been case-split by the solver']
OUTSIDE = ['histories longer than 5 calls; scaffolds other than the 5 listed; claim calls on models other than the transaction, its last meta item, its first posting and the file']


def selftest():
    return docenv.selftest()
