"""C02 / C08 (document level) -- changing one token changes only that token's characters; positions follow the text.

A parsed multi-block document (store load factor lowered to 4); SYMBOLIC: token ordinal, assignment kind
(value / raw_text) and the new text = a class-specific frame around 2 symbolic code points (full Unicode), kept
inside the token type's lexical domain by the type's own terminal regex (symre).  Optionally a second assignment.

facet text (C02): printed text == before[:s] + token.raw_text + before[e:]; identities, order and all other texts unchanged
facet pos  (C08): get_position / get_index of every token == position computed from the texts
"""
from symx.env import NoTracing, check, Fail, NATIVE, pick, R, Acc, set_load_factor, ts
from symx import docenv, lexenv
from symx.lexenv import full
from symx.docenv import Snapshot
from autobean_refactor import models

M = models
DOCS = {
    'txn': '; lead\n2000-01-01 * "p" "n" #t ^l ; ic\n  kk: "v"\n  ! Assets:A  1.50 USD {2 EUR, "lb"} @ 3 GBP ; pic\n    mm: TRUE\n  ; between\n  Assets:B\n; trail\n',
    'multi': 'option "a\nb" "c"\n; c1\n; c2\n2000-01-01 note Assets:A "two\nlines" #x\n  ; ind1\n  ; ind2\n  kk: 2000-01-02\n',
    'crlf': '2000-01-01 open Assets:A USD, EUR "STRICT" ; ic\r\n  kk: NULL\r\n\r\n2000-01-02 custom "t" "s" TRUE 1 USD\r\n',
    'nonl': '2000-01-01 note Assets:Foo "first\nsecond"',
    'onecomment': '; a\n; b',
    # multi-line tokens exactly as wide as the replacement (frame + 2 code points): an update that keeps the width but removes the line breaks
    'samewidth': 'plugin "\nx" "y\n"\n;\n;\n2000-01-01 note Assets:A "\n\n" #ab\n',
}
# frame per class: (prefix, suffix) around the symbolic code points; None = alternatives list (raw_text only)
FRAMES = {
    M.EscapedString: ('"', '"'), M.Tag: ('#', ''), M.Link: ('^', ''), M.InlineComment: (';', ''), M.BlockComment: (';', ''),
    M.MetaKey: ('k', ':'), M.Account: ('A', ':B'), M.Currency: ('U', 'D'), M.Indent: (' ', ''), M.Whitespace: (' ', ''),
    M.Newline: ('', '\n'), M.Ignored: ('*', ''),
}
ALTS = {
    M.Number: ['7', '12.50', '1,000'], M.Date: ['2021-02-03', '1999/1/9'], M.Bool: ['TRUE', 'FALSE'], M.PostingFlag: ['!', 'P'],
    M.TransactionFlag: ['txn', '!'], M.Null: ['NULL'],
}


def new_text(tok, c0, c1):
    fr = FRAMES.get(type(tok))
    if fr is None:
        return None
    if isinstance(tok, M.BlockComment):
        return tok.indent + ';' + chr(c0) + chr(c1)
    return fr[0] + chr(c0) + chr(c1) + fr[1]


def extent(cps_text):
    """(lines, column) of a text given as a list of code points / str, by a character fold."""
    line = 0
    col = 0
    for ch in cps_text:
        if ch == '\n':
            line += 1
            col = 0
        else:
            col += 1
    return line, col


def make_edit(doc, facet, second, twin=False):
    text = DOCS[doc]
    with NoTracing():
        set_load_factor(4)
        ntok = len(list(docenv.PARSER.parse(text, M.File).token_store))
        set_load_factor(1000)

    def cell(i: int, via_raw: bool, c0: int, c1: int, alt: int, j: int, alt2: int) -> None:
        assert 0 <= i < ntok and 0 <= c0 <= 0x10FFFF and 0 <= c1 <= 0x10FFFF and 0 <= alt <= 2
        assert (0 <= j < ntok and 0 <= alt2 <= 1) if second else (j == -1 and alt2 == 0)
        i = pick(i, 0, ntok - 1)
        with NoTracing():
            set_load_factor(4)
            f = docenv.PARSER.parse(text, M.File)
            docenv.warm(f)          # every attribute, view and token value was read once before the assignment
            toks = list(f.token_store)
            before = [t.raw_text for t in toks]
            store = f.token_store
            tok = toks[i]
            check(docenv.text_of(f) == text, 'printing the parsed document does not reproduce the input')    # print, then assign, then print again
        new = new_text(tok, c0, c1)
        if new is None:
            alts = ALTS.get(type(tok))
            if alts is None:
                return      # keyword / punctuation / zero-width token: no other lexeme of its type
            alt = pick(alt, 0, 2)
            if alt >= len(alts):
                return
            new = alts[alt]
        elif not full(tok.RULE, new):
            return
        via_raw = bool(pick(via_raw, 0, 1))
        if via_raw or not hasattr(tok, '_parse_value') or isinstance(tok, M.BlockComment):
            tok.raw_text = new
            check(tok.raw_text == new, 'raw_text assignment not verbatim')
        else:
            try:
                v = type(tok).from_raw_text(new).value
            except ValueError:
                return
            tok.value = v
            check(tok.value == v, 'value assignment not read back')
        edited = [i]
        if second:
            j = pick(j, 0, ntok - 1)
            tj = toks[j]
            a2 = {M.EscapedString: ['"z"', '"q\nr"'], M.BlockComment: [tj.raw_text + 'x', tj.raw_text.split('\n')[0]] if isinstance(tj, M.BlockComment) else None,
                  M.InlineComment: [';', '; zz'], M.Tag: ['#z', '#zz'], M.Account: ['Assets:Z', 'Equity:Q'], M.Number: ['9', '10.5']}.get(type(tj))
            if a2 is not None and j != i:
                tj.raw_text = a2[pick(alt2, 0, 1)]
                edited.append(j)
        if twin:
            raise Fail('twin reached the assertion point')
        with NoTracing():
            after = list(store)
            check(len(after) == len(toks) and all(a is b for a, b in zip(after, toks)), 'token identities or order changed by a token assignment')
        if facet == 'text':
            acc_ok = True
            out = ''
            exp = ''
            for k, t in enumerate(after):
                out = out + t.raw_text
                if k not in edited:
                    check(t.raw_text == before[k], 'text of another token changed', k)
                    exp = exp + before[k]
                else:
                    exp = exp + toks[k].raw_text
            printed = docenv.text_of(f)      # the real printer, a second time (it already printed this document before the edit)
            check(printed == exp, 'printed text is not the input with the token span replaced', R(printed), R(exp))
            check(''.join(t.raw_text for t in f.tokens) == exp, 'model.tokens is not the input with the token span replaced')
        else:
            acc = Acc()
            line = 0
            col = 0
            for k, t in enumerate(after):
                p = store.get_position(t)
                acc.eq(p.line, line, 'line of token', k)
                acc.eq(p.column, col, 'column of token', k)
                with NoTracing():
                    idx = store.get_index(t)
                    check(idx == k, 'get_index', k, idx)
                l, c = extent(t.raw_text)
                if l != 0:
                    line = line + l
                    col = c
                else:
                    col = col + c
            acc.done('get_position differs from the (line, column) of the token in the printed text')

    return 'edit_%s_%s%s%s' % (facet, doc, '_2' if second else '', '_twin' if twin else ''), cell


CELLS = {}


def _reg(name_fn, tiers, timeout, family, bounds, twin=False, cost=None):
    name, fn = name_fn
    assert name not in CELLS, 'duplicate cell name ' + name
    CELLS[name] = dict(fn=fn, tiers=tiers, timeout=timeout, family=family, bounds=bounds, twin=twin, cost=cost or timeout)


Q, T = ('quick', 'thorough'), ('thorough',)
for _doc in DOCS:
    for _facet, _prop in (('text', 'C02'), ('pos', 'C08')):
        _reg(make_edit(_doc, _facet, False), {_prop: Q}, 1200, 'edit/' + _facet,
             'document %r (load factor 4): every token x {value, raw_text} x frame + 2 symbolic code points (full Unicode, in the type\'s lexical domain)' % _doc, cost=300)
        _reg(make_edit(_doc, _facet, True), {_prop: T}, 3300, 'edit2/' + _facet,
             'document %r: as above, followed by a second raw_text assignment on a symbolic token' % _doc)
_reg(make_edit('txn', 'text', False, twin=True), {'C02': Q}, 120, 'edit/text', 'vacuity twin', twin=True, cost=1)
_reg(make_edit('txn', 'pos', False, twin=True), {'C08': Q}, 120, 'edit/pos', 'vacuity twin', twin=True, cost=1)

FILES = ['autobean_refactor/token_store.py', 'autobean_refactor/models/internal/base_token_models.py', 'autobean_refactor/models/block_comment.py',
         'autobean_refactor/models/base.py']
ENCODES = ['autobean_refactor/models/internal/base_token_models.py: SingleValueRawTokenModel.value/raw_text setters',
           'autobean_refactor/models/block_comment.py: BlockComment.raw_text setter', 'autobean_refactor/token_store.py: Token._update_raw_text, TokenStore.update, get_position, get_index']
STUBS = ['documents are parsed by the real parser untraced with the store load factor set to 4 (multi-block); the assignment and the store update run traced with symbolic text']
OUTSIDE = ['documents other than the 5 listed; replacement texts longer than frame + 2 code points; more than two assignments']


def selftest():
    return lexenv.selftest()
