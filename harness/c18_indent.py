"""C18 -- children created from values are indented by the documented rule.

Symbolic selectors: parent kind (entries and a posting), existing meta layout, indent_by (1..3 units of SP/TAB),
posting indent, insertion route (mapping assignment, raw item append/insert, indented leading/trailing comment).
Oracle: new item's indent = first existing meta item's indent if any, else parent indent + indent_by (entries:
indent_by); raw nodes keep their indent verbatim; no pre-existing line changes its indentation; the result re-parses
with the new item under the same parent.
"""
import decimal

from symx.env import NoTracing, check, Fail, NATIVE, pick, R
from symx import docenv
from symx.docenv import text_of
from autobean_refactor import models

M = models
D = decimal.Decimal
UNITS = [' ', '\t']
PARENTS = {
    'open': ('2000-01-01 open Assets:A USD', lambda f: f.raw_directives[1], ''),
    'close': ('2000-01-01 close Assets:A', lambda f: f.raw_directives[1], ''),
    'balance': ('2000-01-01 balance Assets:A 1 USD', lambda f: f.raw_directives[1], ''),
    'note': ('2000-01-01 note Assets:A "n" #t', lambda f: f.raw_directives[1], ''),
    'custom': ('2000-01-01 custom "t" 1', lambda f: f.raw_directives[1], ''),
    'txn': ('2000-01-01 * "n"\n{P}Assets:A  1 USD\n{P}Assets:B', lambda f: f.raw_directives[1], ''),
    'posting': ('2000-01-01 * "n"\n{P}Assets:A  1 USD\n{P}Assets:B', lambda f: f.raw_directives[1].raw_postings[0], 'P'),
    'posting_last': ('2000-01-01 * "n"\n{P}Assets:A  1 USD\n{P}Assets:B', lambda f: f.raw_directives[1].raw_postings[1], 'P'),
}
# existing meta layouts: list of (indent, line) relative: I = item indent placeholder
LAYOUTS = {
    'none': [],
    'one': ['{I}ka: 1'],
    'two': ['{I}ka: 1', '{I}kb: "x"'],
    'comment_first': ['{C}; mc', '{I}ka: 1'],
    'comment_only': ['{C}; mc'],
}
ROUTES = ['map_new', 'map_existing', 'raw_append', 'raw_insert0', 'leading_comment', 'trailing_comment', 'item_leading_comment', 'item_trailing_comment']


def build_text(parent, layout, pind, iind, cind):
    head = PARENTS[parent][0].replace('{P}', pind)
    lines = head.split('\n')
    meta = [x.replace('{I}', iind).replace('{C}', cind) for x in LAYOUTS[layout]]
    if parent in ('posting',):
        lines = lines[:2] + meta + lines[2:]
    elif parent == 'posting_last':
        lines = lines + meta
    elif parent == 'txn':
        lines = lines[:1] + meta + lines[1:]
    else:
        lines = lines + meta
    return docenv.PRE + '\n'.join(lines) + '\n' + docenv.POST


COMMENT_VALUES = ['newcomment', 'a\n\nb']


def check_comment_lines(c, indent, what):
    """Every line of a comment created from a plain value starts with the owner's indentation, then ';'."""
    for line in c.raw_text.split('\n'):
        check(line.startswith(indent + ';'), what, 'a line of the created comment is not indented like its owner', R(line), R(indent), R(c.raw_text))


def leading_blanks(line):
    return line[:len(line) - len(line.lstrip(' \t'))]


def make_indent(parent, layout, route, twin=False, reind_fixed=0):
    def cell(b0: int, b1: int, b2: int, nb: int, p0: int, p1: int, npi: int, i0: int, i1: int, c0: int, touch: int = 0, reind: int = 0) -> None:
        assert 0 <= b0 <= 1 and 0 <= b1 <= 1 and 0 <= b2 <= 1 and 1 <= nb <= 3 and 0 <= touch <= 1
        assert reind == reind_fixed
        assert 0 <= p0 <= 1 and 0 <= p1 <= 1 and 1 <= npi <= 2 and 0 <= i0 <= 1 and 0 <= i1 <= 2 and 0 <= c0 <= 2
        touch = pick(touch, 0, 1)
        reind = reind_fixed
        nb = pick(nb, 1, 3)
        indent_by = ''.join(UNITS[pick(b, 0, 1)] for b in (b0, b1, b2)[:nb])
        has_p = '{P}' in PARENTS[parent][0]
        npi = pick(npi, 1, 2) if has_p else 1
        pind = ''.join(UNITS[pick(p, 0, 1)] for p in (p0, p1)[:npi]) if has_p else '  '
        # existing item indent: deeper than the parent; 3 variants; comment indent 3 variants (may differ from the items')
        has_i = any('{I}' in x for x in LAYOUTS[layout])
        has_c = any('{C}' in x for x in LAYOUTS[layout])
        iind = (pind if PARENTS[parent][2] else '') + [' ', '\t', '      '][pick(i1, 0, 2)] if has_i else ''
        cind = (pind if PARENTS[parent][2] else '') + ['  ', '\t\t', '   '][pick(c0, 0, 2)] if has_c else ''
        with NoTracing():
            text = build_text(parent, layout, pind, iind, cind)
            try:
                f = docenv.PARSER.parse(text, M.File)
            except Exception as e:
                if type(e).__module__.startswith('lark'):
                    return
                raise
            m = PARENTS[parent][1](f)
            if layout.startswith('comment') and not any(isinstance(x, M.BlockComment) for x in m.raw_meta_with_comments):
                return   # the comment was attributed elsewhere (leading/trailing of a neighbour): not this cell's layout
            if touch:      # the views are read (and cached on the model) BEFORE the indentation unit is changed
                len(m.meta), ('zz' in m.meta), list(m.raw_meta), list(m.raw_meta_with_comments)
            if reind:      # the parent's own indentation is changed (by value or by replacing the raw Indent node) after the views were read
                newind = ['\t', '   '][(reind - 1) % 2]
                if reind <= 2:
                    m.indent = newind
                else:
                    m.raw_indent = M.Indent.from_value(newind)
            m.indent_by = indent_by
            own = m.indent if hasattr(m, 'indent') and PARENTS[parent][2] else ''
            items = [x for x in m.raw_meta_with_comments if isinstance(x, M.MetaItem)]
            expected = items[0].indent if items else own + indent_by
            before_lines = text_of(f).split('\n')
            what = '%s layout=%s route=%s indent_by=%r parent indent=%r item indent=%r%s%s' % (parent, layout, route, indent_by, pind, iind, ' views read first' if touch else '', (' then parent %s = %r' % ('indent' if reind <= 2 else 'raw_indent', newind)) if reind else '')
            new_line_marker = None
            if route == 'map_new':
                m.meta['newkey'] = 'v'
                it = m.raw_meta['newkey']
                check(it.indent == expected, what, 'new meta item indent', R(it.indent), 'expected', R(expected))
                new_line_marker = 'newkey:'
            elif route == 'map_existing':
                if not items:
                    return
                old = items[0].indent
                m.meta['ka'] = D('9')
                check(items[0].indent == old, what, 'updating an existing key changed its indent')
            elif route in ('raw_append', 'raw_insert0'):
                raw = M.MetaItem.from_value('rawkey', 'v', indent=(own + '\t \t'))
                if route == 'raw_append':
                    m.raw_meta_with_comments.append(raw)
                else:
                    m.raw_meta_with_comments.insert(0, raw)
                check(raw.indent == own + '\t \t', what, 'a raw node did not keep its indent verbatim', R(raw.indent))
                new_line_marker = 'rawkey:'
            elif route in ('leading_comment', 'trailing_comment'):
                if not PARENTS[parent][2]:
                    return      # only indented models (postings, meta items) create indented comments
                setattr(m, route, COMMENT_VALUES[touch])
                c = getattr(m, 'raw_' + route)
                check(c.indent == own, what, route, 'indent', R(c.indent), 'expected the posting indent', R(own))
                check_comment_lines(c, own, what)
                new_line_marker = c
            else:
                if not items:
                    return
                r = route[len('item_'):]
                setattr(items[-1], r, COMMENT_VALUES[touch])
                c = getattr(items[-1], 'raw_' + r)
                check(c.indent == items[-1].indent, what, route, 'indent', R(c.indent), 'expected the item indent', R(items[-1].indent))
                check_comment_lines(c, items[-1].indent, what)
                new_line_marker = c
            if twin:
                raise Fail('twin reached the assertion point')
            after_text = text_of(f)
            after_lines = after_text.split('\n')
            # no pre-existing line changes its indentation (lines are matched by their content without the new one)
            if isinstance(new_line_marker, M.BlockComment):     # the lines of the new comment, as one contiguous run
                cl = new_line_marker.raw_text.split('\n')
                at = next((k for k in range(len(after_lines) - len(cl) + 1) if after_lines[k:k + len(cl)] == cl), None)
                check(at is not None, what, 'the lines of the new comment are not in the document', R(after_text))
                kept = after_lines[:at] + after_lines[at + len(cl):]
            else:
                kept = [l for l in after_lines if not (new_line_marker and new_line_marker in l)]
            if route == 'map_existing':
                kept = [l if 'ka:' not in l else before_lines[[i for i, b in enumerate(before_lines) if 'ka:' in b][0]] for l in kept]
            check([leading_blanks(l) for l in kept] == [leading_blanks(l) for l in before_lines], what, 'indentation of an existing line changed', R(after_text))
            check([l.strip() for l in kept] == [l.strip() for l in before_lines] or route == 'map_existing', what, 'an existing line changed', R(after_text))
            docenv.tree_invariant(f, what=what)
            try:
                f2 = docenv.PARSER.parse(after_text, M.File)
            except Exception as e:
                raise Fail('%s: document no longer parses: %r: %r' % (what, after_text, e))
            m2 = PARENTS[parent][1](f2)
            if route == 'map_new':
                check('newkey' in m2.meta and m2.meta['newkey'] == 'v', what, 'after re-parse the new item is not under the same parent', R(after_text))
            if route in ('raw_append', 'raw_insert0'):
                check('rawkey' in m2.meta, what, 'after re-parse the raw item is not under the same parent', R(after_text))

    return 'indent_%s_%s_%s%s%s' % (parent, layout, route, '_reind%d' % reind_fixed if reind_fixed else '', '_twin' if twin else ''), cell


BUILT = ['txn_value', 'txn_children', 'open_value', 'balance_value', 'posting_value', 'txn_value_meta_cleared']


def make_built(kind, twin=False):
    """The parent is CONSTRUCTED (from_value / from_children) with a symbolic indent_by and placed in a document; the first meta
    item then created from a plain value must be indented by the parent's indentation followed by that indent_by."""
    import datetime

    def cell(b0: int, b1: int, b2: int, nb: int, p0: int, p1: int, npi: int) -> None:
        assert 0 <= b0 <= 1 and 0 <= b1 <= 1 and 0 <= b2 <= 1 and 1 <= nb <= 3 and 0 <= p0 <= 1 and 0 <= p1 <= 1 and 1 <= npi <= 2
        nb = pick(nb, 1, 3)
        indent_by = ''.join(UNITS[pick(b, 0, 1)] for b in (b0, b1, b2)[:nb])
        npi = pick(npi, 1, 2)
        pind = ''.join(UNITS[pick(p, 0, 1)] for p in (p0, p1)[:npi])
        with NoTracing():
            f = docenv.PARSER.parse(docenv.PRE + docenv.POST, M.File)
            date = datetime.date(2000, 5, 6)
            own = ''
            if kind.startswith('txn_value'):
                meta = {'gone': 'x'} if kind.endswith('cleared') else None
                m = M.Transaction.from_value(date, None, 'n', [M.Posting.from_value('Assets:A', D('1'), 'USD', indent=pind)], meta=meta, indent_by=indent_by)
            elif kind == 'txn_children':
                m = M.Transaction.from_children(M.Date.from_value(date), M.TransactionFlag.from_value('*'), None, M.EscapedString.from_value('n'),
                                                [M.Posting.from_value('Assets:A', D('1'), 'USD', indent=pind)], indent_by=indent_by)
            elif kind == 'open_value':
                m = M.Open.from_value(date, 'Assets:N', ['USD'], indent_by=indent_by)
            elif kind == 'balance_value':
                m = M.Balance.from_value(date, 'Assets:N', D('1'), None, 'USD', indent_by=indent_by)
            else:
                txn = M.Transaction.from_value(date, None, 'n', [M.Posting.from_value('Assets:A', D('1'), 'USD', indent=pind, indent_by=indent_by)])
                m = txn.raw_postings[0]
                own = pind
                f.raw_directives_with_comments.insert(1, txn)
            if own == '':
                f.raw_directives_with_comments.insert(1, m)
            if kind.endswith('cleared'):
                del m.meta['gone']
            what = 'constructed %s with indent_by=%r%s' % (kind, indent_by, (' posting indent %r' % pind) if own else '')
            check(m.indent_by == indent_by, what, 'the model says its indent_by is', R(m.indent_by))
            before_lines = text_of(f).split('\n')
            m.meta['newkey'] = 'v'
            if twin:
                raise Fail('twin reached the assertion point')
            it = m.raw_meta['newkey']
            check(it.indent == own + indent_by, what, 'the first meta item created from a value is indented', R(it.indent), 'expected', R(own + indent_by))
            after_text = text_of(f)
            kept = [l for l in after_text.split('\n') if 'newkey:' not in l]
            check(kept == before_lines, what, 'an existing line changed', R(after_text))
            docenv.tree_invariant(f, what=what)
            try:
                f2 = docenv.PARSER.parse(after_text, M.File)
            except Exception as e:
                raise Fail('%s: document no longer parses: %r: %r' % (what, after_text, e))
            d2 = f2.raw_directives[1]
            m2 = d2.raw_postings[0] if own else d2
            check('newkey' in m2.meta and m2.meta['newkey'] == 'v', what, 'after re-parse the new item is not under the same parent', R(after_text))

    return 'built_%s%s' % (kind, '_twin' if twin else ''), cell


CELLS = {}


def _reg(name_fn, tiers, timeout, family, bounds, twin=False, cost=None):
    name, fn = name_fn
    assert name not in CELLS, 'duplicate cell name ' + name
    CELLS[name] = dict(fn=fn, tiers=tiers, timeout=timeout, family=family, bounds=bounds, twin=twin, cost=cost or timeout)


Q, T = ('quick', 'thorough'), ('thorough',)
for _p in PARENTS:
    for _l in LAYOUTS:
        for _r in ROUTES:
            quick = _p in ('open', 'txn', 'posting', 'posting_last', 'custom') and not (_p == 'custom' and _r != 'map_new')
            _reg(make_indent(_p, _l, _r), {'C18': Q if quick else T}, 600, 'indent',
                 '%s with meta layout %s, route %s: indent_by = every string of 1..3 units of {SP,TAB}, posting indent 1..2 units, 3 item / comment indents; views read before or not' % (_p, _l, _r), cost=30)
for _p in ('posting', 'posting_last'):
    for _l in ('none', 'one', 'comment_only'):
        for _r in ('map_new', 'leading_comment', 'trailing_comment', 'item_leading_comment'):
            for _re in (1, 2, 3, 4):
                quick = _p == 'posting' and _l == 'none' and _r in ('map_new', 'leading_comment') and _re in (2, 3)
                _reg(make_indent(_p, _l, _r, reind_fixed=_re), {'C18': Q if quick else T}, 600, 'indent/reindent',
                     '%s with meta layout %s, route %s, after the views were read (or not) the posting\'s own indent is changed (%s): indent_by 1..3 units, posting indent 1..2 units'
                     % (_p, _l, _r, ('indent = TAB', 'indent = 3 SP', 'raw_indent = Indent(TAB)', 'raw_indent = Indent(3 SP)')[_re - 1]), cost=30)
for _k in BUILT:
    _reg(make_built(_k), {'C18': Q}, 300, 'indent/built', 'parent constructed by %s with indent_by = every string of 1..3 units of {SP,TAB} (posting indent 1..2 units): first meta item created from a value' % _k, cost=10)
_reg(make_built('txn_value', twin=True), {'C18': Q}, 120, 'indent/built', 'vacuity twin', twin=True, cost=1)
_reg(make_indent('posting', 'none', 'map_new', twin=True), {'C18': Q}, 120, 'indent', 'vacuity twin', twin=True, cost=1)

FILES = ['autobean_refactor/models/meta_item_internal.py', 'autobean_refactor/models/internal/value_properties.py',
         'autobean_refactor/models/generated/posting.py', 'autobean_refactor/models/generated/meta_item.py', 'docs/special/indents.md']
ENCODES = ['autobean_refactor/models/meta_item_internal.py: RepeatedMetaItemWrapper.__setitem__/_get_indent, _get_default_indent, repeated_meta_item_property',
           'autobean_refactor/models/internal/value_properties.py: optional_indented_string_property',
           'autobean_refactor/models/generated/meta_item.py: MetaItem.from_value(indent=...)']
STUBS = ['parent kind, layout, route and indent strings are symbolic selectors enumerated exhaustively by the solver; the edits run natively']
OUTSIDE = ['indent_by longer than 3 units; parents other than the 8 listed; meta layouts other than the 5 listed']


def selftest():
    return docenv.selftest()
