"""C11 (deep copy), C20 (equality), C04 (non-edits) on parsed templates.

All variables are symbolic selectors (template attribution mode, model ordinal at any depth, operation codes, token
ordinals) that the solver enumerates exhaustively; each combination runs natively on the real code.
"""
import copy
import decimal

from symx.env import NoTracing, check, Fail, NATIVE, pick, R
from symx import docenv
from symx.docenv import text_of, Snapshot, walk
from autobean_refactor import models
from autobean_refactor.models.internal import properties as PR, value_properties as VP, interleaving_comments as IC, surrounding_comments as SC
from autobean_refactor.models import meta_item_internal as MI

M = models
DOCS = {
    'txn': '; lead\n2000-01-01 * "p" "n" #t ^l ; ic\n  kk: 1\n  ; mc\n  k2: Assets:Z\n  ! Assets:A  1+2 USD {2 EUR, 2000-01-02, "lb", *} @ 3 GBP ; pic\n    mm: "x"\n  ; between\n  Assets:B  -1 USD {{4 # 5 CHF}} @@ 6 JPY\n; trail\n\n; standalone\n\n2000-01-02 open Assets:A USD, EUR "STRICT"\n',
    'dirs': 'option "a" "b"\ninclude "x.bean"\nplugin "p" "cfg"\npushtag #t\npoptag #t\npushmeta kk: 1\npopmeta kk:\n* ignored\n2000-01-01 balance Assets:A 1 ~ 0.1 USD\n  kk: "v"\n2000-01-02 close Assets:A\n2000-01-03 commodity USD\n2000-01-04 pad Assets:A Equity:B\n',
    'dirs2': '2000-01-05 event "a" "b"\n2000-01-06 query "a" "b"\n2000-01-07 price USD 2 * 3 / 4 - 5 - 6 EUR\n; c above note\n2000-01-08 note Assets:A "n" #a ^b\n; c below note\n2000-01-09 document Assets:A "p" ^l\n2000-01-10 custom "t" "s" 2000-01-02 TRUE 1 USD 2 Assets:A\n  kk: NULL\n',
    'comments': '; c0\n2000-01-01 open Assets:A\n; c1\n2000-01-02 open Assets:B\n\n; c2\n\n2000-01-03 *\n  ; c3\n  Assets:A  1 USD\n    ; c4\n    aa: 1\n  ; c5\n',
}


def tree_models(f):
    return [(p, m) for p, m in walk(f) if isinstance(m, M.RawTreeModel) and not type(m).__name__ == 'Repeated']


def value_tokens(m):
    return [t for t in m.tokens if t.raw_text and isinstance(t, (M.EscapedString, M.Account, M.Currency, M.Tag, M.Link, M.InlineComment,
                                                                 M.BlockComment, M.Number, M.MetaKey, M.Date, M.Bool))]


def perturb_text(t):
    """A different lexeme of the same type."""
    if isinstance(t, M.EscapedString):
        return t.raw_text[:-1] + 'Z"'
    if isinstance(t, (M.InlineComment, M.BlockComment, M.Tag, M.Link)):
        return t.raw_text + 'z'
    if isinstance(t, M.Account):
        return t.raw_text + 'Z'
    if isinstance(t, M.Currency):
        return t.raw_text + 'Z'
    if isinstance(t, M.Number):
        return t.raw_text + '9'
    if isinstance(t, M.MetaKey):
        return t.raw_text[:-1] + 'z:'
    if isinstance(t, M.Date):
        return '2031-12-30' if t.raw_text != '2031-12-30' else '2031-12-29'
    if isinstance(t, M.Bool):
        return 'FALSE' if t.raw_text == 'TRUE' else 'TRUE'
    raise AssertionError(t)


def structural_edits(m):
    """Named structural edits available on this model: list of (name, fn)."""
    out = []
    for attr in ('raw_tags_links', 'raw_postings_with_comments', 'raw_meta_with_comments', 'raw_currencies', 'raw_values',
                 'raw_directives_with_comments', 'raw_components'):
        w = getattr(m, attr, None) if hasattr(type(m), attr) else None
        if w is None:
            continue
        if len(w):
            out.append(('pop last of ' + attr, (lambda w=w: w.pop())))
            out.append(('duplicate first of ' + attr, (lambda w=w: w.append(copy.deepcopy(w[0])))))
    for attr in ('raw_inline_comment', 'raw_booking', 'raw_tolerance', 'raw_price', 'raw_cost', 'raw_flag', 'raw_number', 'raw_config', 'raw_value'):
        d = getattr(type(m), attr, None)
        if isinstance(d, PR.optional_node_property) and getattr(m, attr) is not None:
            out.append(('clear ' + attr, (lambda m=m, attr=attr: setattr(m, attr, None))))
    if isinstance(m, SC.SurroundingCommentsMixin):
        if m.raw_leading_comment is not None:
            out.append(('unclaim leading comment', m.unclaim_leading_comment))
        if m.raw_trailing_comment is not None:
            out.append(('unclaim trailing comment', m.unclaim_trailing_comment))
    return out


def make_copy(doc, acc_c, kind_c, max_ti, twin=False):
    text = DOCS[doc]
    with NoTracing():
        n_models = len(tree_models(docenv.PARSER.parse(text, M.File)))

    def cell(mi: int, on_copy: bool, ti: int) -> None:
        assert 0 <= mi < n_models and 0 <= ti <= max_ti
        acc, kind = acc_c, kind_c
        on_copy = bool(pick(on_copy, 0, 1))
        mi, ti = pick(mi, 0, n_models - 1), pick(ti, 0, max_ti)
        with NoTracing():
            f = docenv.PARSER.parse(text, M.File, auto_claim_comments=acc)
            path, m = tree_models(f)[mi]
            if ti % 2 and hasattr(type(m), 'indent_by'):
                m.indent_by = '\t'            # the only non-token state of a tree model; half of the configurations copy a model with a non-default unit
            mtext = text_of(m)
            c = copy.deepcopy(m)
            what = '%s deepcopy of %s (%s)' % (doc, path, type(m).__name__)
            if twin:
                raise Fail('twin reached the assertion point')
            check(type(c) is type(m), what, 'has another type')
            check(c == m and m == c, what, 'does not compare equal to the original')
            check(text_of(c) == mtext, what, 'prints', R(text_of(c)), 'instead of', R(mtext))
            st = c.token_store
            check(st is not f.token_store, what, 'shares the token store')
            ctoks = list(st)
            orig_ids = {id(t) for t in f.token_store}
            check(not any(id(t) in orig_ids for t in ctoks), what, 'shares a token with the original')
            docenv.tree_invariant(c, store=st, what=what)
            check(''.join(t.raw_text for t in ctoks) == mtext, what, 'store of the copy holds more than the copy', R(''.join(t.raw_text for t in ctoks)))
            if ctoks:
                check(c.first_token is st.get_first() and c.last_token is st.get_last(), what, 'copy is not the whole of its store')
            mtoks = list(m.tokens)
            check(len(mtoks) == len(ctoks), what, 'token count differs')
            for t1, t2 in zip(mtoks, ctoks):   # token-exact, including comments no model owns
                check(type(t1) is type(t2) and t1.raw_text == t2.raw_text, what, 'token differs', docenv.R_(t1), docenv.R_(t2))
                if isinstance(t1, M.BlockComment):
                    check(t1.claimed == t2.claimed and t1.indent == t2.indent and t1.value == t2.value, what, 'comment state differs (claimed/indent/value)', docenv.R_(t1))
                elif hasattr(t1, 'value'):
                    check(t1.value == t2.value, what, 'token value differs', docenv.R_(t1))
            for (p1, a), (p2, b) in zip(walk(m), walk(c)):   # same shape, comment flags preserved
                check(type(a) is type(b) and p1 == p2, what, 'tree shape differs at', p1, p2)
                if isinstance(a, M.BlockComment):
                    check(a.claimed == b.claimed, what, 'claimed flag differs at', p1)
                if hasattr(type(a), 'indent_by'):
                    check(a.indent_by == b.indent_by, what, 'indent_by differs at', p1, R(a.indent_by), R(b.indent_by))
            # independence: one edit on one side, the other side untouched
            target, other = (c, m) if on_copy else (m, c)
            other_root = m.token_store if on_copy else st
            snap_other = Snapshot(other_root)
            other_text = text_of(other)
            if kind == 0:
                vts = value_tokens(target)
                if not vts:
                    return
                t = vts[ti % len(vts)]
                t.raw_text = perturb_text(t)
                edit = 'text of token %r' % t.raw_text
            elif kind == 1:
                eds = structural_edits(target)
                if not eds:
                    return
                name, fn = eds[ti % len(eds)]
                fn()
                edit = name
            elif kind == 3:
                # an edit of one side that READS an operand living on the other side
                ex = [x for _, x in walk(target) if isinstance(x, M.NumberExpr)]
                ox = [x for _, x in walk(other) if isinstance(x, M.NumberExpr)]
                if not ex:
                    return
                a, b = ex[ti % len(ex)], ox[ti % len(ox)]
                if (ti // len(ex)) % 2:
                    a += b
                else:
                    a *= b
                edit = 'in-place arithmetic with an operand from the other side'
            else:
                sub = [x for _, x in walk(target) if isinstance(x, M.RawTreeModel) and x is not target and hasattr(x, 'spacing_before')]
                if not sub:
                    return
                sub[ti % len(sub)].spacing_before = ' \t '
                edit = 'spacing'
            after_other = Snapshot(other_root)
            check(text_of(other) == other_text, what, 'edit (%s) on one side changed the other side' % edit, R(text_of(other)))
            check(len(after_other.tokens) == len(snap_other.tokens) and all(a is b for a, b in zip(after_other.tokens, snap_other.tokens))
                  and after_other.texts == snap_other.texts, what, 'edit (%s) on one side changed tokens of the other side' % edit)
            docenv.tree_invariant(f, what=what + ' original document after ' + edit)
            docenv.tree_invariant(c, store=st, what=what + ' copy after ' + edit, whole_store=False)

    return 'copy_%s_acc%d_kind%d_t%d%s' % (doc, acc_c, kind_c, max_ti, '_twin' if twin else ''), cell


def make_equal(doc, acc_c, kind_c, max_ti, twin=False):
    text = DOCS[doc]
    with NoTracing():
        n_models = len(tree_models(docenv.PARSER.parse(text, M.File)))

    def cell(mi: int, ti: int) -> None:
        assert 0 <= mi < n_models and 0 <= ti <= max_ti
        acc, kind = acc_c, kind_c
        mi, ti = pick(mi, 0, n_models - 1), pick(ti, 0, max_ti)
        with NoTracing():
            f1 = docenv.PARSER.parse(text, M.File, auto_claim_comments=acc)
            f2 = docenv.PARSER.parse(text, M.File, auto_claim_comments=acc)
            (path, a), (_, b) = tree_models(f1)[mi], tree_models(f2)[mi]
            what = '%s %s (%s)' % (doc, path, type(a).__name__)
            if twin:
                raise Fail('twin reached the assertion point')
            check(a == b and b == a, what, 'parsing the same text twice gives unequal models')
            check(not (a != b), what, '!= disagrees with ==')
            for t1, t2 in zip(a.tokens, b.tokens):
                check(t1 == t2 and hash(t1) == hash(t2), what, 'equal tokens with different hashes', docenv.R_(t1))
            c = copy.deepcopy(a)
            check(c == a and a == c, what, 'deep copy unequal')
            if ti % 2:       # the only non-token state of a tree model: a non-default indentation unit on the model and on everything below it
                for _, x in walk(a):
                    if hasattr(type(x), 'indent_by'):
                        x.indent_by = '\t'
                c = copy.deepcopy(a)
                check(c == a and a == c, what, 'deep copy of a model with a non-default indent_by is unequal to it')
            # one perturbation of the copy: must become unequal (and stay symmetric)
            if kind == 0:
                vts = value_tokens(c)
                if not vts:
                    return
                t = vts[ti % len(vts)]
                hash(t)
                t.raw_text = perturb_text(t)
                edit = 'text of one token -> %r' % t.raw_text
                try:
                    o = type(t).from_raw_text(t.raw_text)
                except Exception:
                    o = None
                if o is not None:     # an edited token and a fresh token with the same type and text: equal, so equal hashes
                    check(t == o and o == t, what, 'a token edited to a text differs from a fresh token with that text', docenv.R_(t))
                    check(hash(t) == hash(o), what, 'equal tokens with different hashes after an edit', docenv.R_(t))
            elif kind == 1:
                eds = structural_edits(c)
                if not eds:
                    return
                name, fn = eds[ti % len(eds)]
                fn()
                edit = name
            elif kind == 2:
                # same text, other comment ownership: a claimed leading/trailing comment becomes unowned somewhere inside
                owners = [x for _, x in walk(c) if isinstance(x, SC.SurroundingCommentsMixin) and (x.raw_leading_comment is not None or x.raw_trailing_comment is not None)]
                if not owners:
                    return
                o = owners[ti % len(owners)]
                if o.raw_leading_comment is not None:
                    o.unclaim_leading_comment()
                else:
                    o.unclaim_trailing_comment()
                edit = 'comment ownership'
                check(text_of(c) == text_of(a) or o is c, what, 'unclaim changed the text')
                if o is c:
                    return   # the comment left the span of the model itself: texts differ, nothing to say about ownership
            elif kind == 5:
                # same text, other ownership of an INTERLEAVING comment (entry of a repeated field with comments)
                lists = []
                for _, x in walk(c):
                    for attr in ('raw_postings_with_comments', 'raw_meta_with_comments', 'raw_directives_with_comments'):
                        if hasattr(type(x), attr):
                            lists.append(getattr(x, attr))
                if not lists:
                    return
                w = lists[ti % len(lists)]
                before_text = text_of(c)
                if any(isinstance(x, M.BlockComment) for x in w):
                    w.unclaim_interleaving_comments()
                    edit = 'unclaim of interleaving comments'
                else:
                    try:
                        got = w.claim_interleaving_comments()
                    except ValueError:
                        return
                    if not got:
                        return
                    edit = 'claim of interleaving comments'
                if text_of(c) != before_text:
                    return
            elif kind == 4:
                # same structure, different text between tokens: spacing at a symbolic place (incl. the tail of the model)
                subs = [x for _, x in walk(c) if hasattr(x, 'spacing_before') and x.token_store is c.token_store]
                if not subs:
                    return
                if ti // 2 >= len(subs):
                    return
                x = subs[-(1 + ti // 2)]     # from the end: the tail of the model is where a prefix comparison would not look
                before_text = text_of(c)
                if ti % 2:
                    x.spacing_after = x.spacing_after + '\n\n'
                else:
                    x.spacing_before = x.spacing_before + ' '
                edit = 'spacing next to ' + type(x).__name__
                if text_of(c) == before_text:
                    return      # the spacing lies outside the copied model's span
            else:
                # a different type with the same text
                check(not (a == a.first_token) and not (a.first_token == a), what, 'a tree model equals a token')
                check(not (a == text_of(a)), what, 'a model equals its text')
                toks = [t for t in a.tokens]
                t = toks[ti % len(toks)]
                for cls2 in M.TOKEN_MODELS.values():
                    if cls2 is type(t):
                        continue
                    try:
                        o = cls2.from_raw_text(t.raw_text)
                    except Exception:
                        continue
                    check(not (t == o) and not (o == t), what, 'tokens of different types compare equal', docenv.R_(t), docenv.R_(o))
                    check(t != o, what, '!= disagrees with == for tokens of different types')
                return
            eq1, eq2 = (c == a), (a == c)
            check(eq1 == eq2, what, 'equality is not symmetric after', edit)
            check(not eq1, what, 'still equal after', edit, R(text_of(c)), R(text_of(a)))

    return 'equal_%s_acc%d_kind%d_t%d%s' % (doc, acc_c, kind_c, max_ti, '_twin' if twin else ''), cell


# ------------------------------------------------------------------------------------------------------ C04
READ_OPS = ['getattrs', 'views', 'eq_hash', 'deepcopy', 'print', 'claim_leading', 'claim_trailing', 'unclaim_claim_leading', 'unclaim_claim_trailing',
            'auto_claim', 'interleaving', 'spacing_get', 'arith']


def read_op(op, m, strict):
    """A non-editing call on model m; claim calls may refuse (ValueError) - the state must still be unchanged."""
    try:
        if op == 'getattrs':
            for name in dir(type(m)):
                if name.startswith('_'):
                    continue
                d = getattr(type(m), name, None)
                if callable(d) and not isinstance(d, property) and not hasattr(d, '__get__'):
                    continue
                try:
                    v = getattr(m, name)
                except NotImplementedError:
                    continue
                if callable(v):
                    continue
        elif op == 'views':
            for name in dir(type(m)):
                if name.startswith('_'):
                    continue
                v = getattr(m, name, None) if isinstance(getattr(type(m), name, None), (PR.repeated_node_property, IC.repeated_node_with_interleaving_comments_property,
                                                                                          PR.cached_custom_property)) else None
                if v is None:
                    continue
                len(v), list(v), [x for x in v], v == v
                if hasattr(v, 'keys'):
                    list(v.keys()), list(v.values()), list(v.items()), ('kk' in v), v.get('kk'), v.get('zz', 1)
                if len(v):
                    v[0], v[-1], v[0:1], v[::-1]
                copy.deepcopy(v) if isinstance(v, PR.RepeatedNodeWrapper) else None
        elif op == 'eq_hash':
            m == m, m != m, m == 1
            for t in m.tokens:
                hash(t), t == t
            repr(m.first_token)
        elif op == 'deepcopy':
            copy.deepcopy(m)
            copy.copy(m.first_token)
        elif op == 'print':
            text_of(m), m.tokens, m.first_token, m.last_token, list(m.iter_children_formatted())
        elif op == 'claim_leading' and isinstance(m, SC.SurroundingCommentsMixin):
            m.claim_leading_comment(ignore_if_already_claimed=not strict)
        elif op == 'claim_trailing' and isinstance(m, SC.SurroundingCommentsMixin):
            m.claim_trailing_comment(ignore_if_already_claimed=not strict)
        elif op == 'unclaim_claim_leading' and isinstance(m, SC.SurroundingCommentsMixin):
            m.unclaim_leading_comment()
            m.claim_leading_comment(ignore_if_already_claimed=not strict)
        elif op == 'unclaim_claim_trailing' and isinstance(m, SC.SurroundingCommentsMixin):
            m.unclaim_trailing_comment()
            m.claim_trailing_comment(ignore_if_already_claimed=not strict)
        elif op == 'auto_claim':
            m.auto_claim_comments()
        elif op == 'interleaving':
            for name in dir(type(m)):
                d = getattr(type(m), name, None)
                if isinstance(d, IC.repeated_node_with_interleaving_comments_property):
                    w = getattr(m, name)
                    if strict:
                        w.unclaim_interleaving_comments()
                    w.claim_interleaving_comments()
        elif op == 'arith':
            for x in [y for _, y in walk(m) if isinstance(y, M.NumberExpr)][:3]:
                x + x, x - 1, 2 * x, x * x, -x, +x, 1 - x, x + decimal.Decimal('1.5')
                if x.value != 0:
                    x / x, 3 / x
        elif op == 'spacing_get' and hasattr(m, 'spacing_before'):
            m.spacing_before, m.spacing_after, m.raw_spacing_before, m.raw_spacing_after
    except (ValueError, NotImplementedError):
        pass


def make_readonly(doc, k, twin=False):
    text = DOCS[doc]
    with NoTracing():
        n_models = len(tree_models(docenv.PARSER.parse(text, M.File)))
    nops = len(READ_OPS)

    def cell(acc: bool, m0: int, o0: int, m1: int, o1: int, strict: bool) -> None:
        assert 0 <= m0 < n_models and 0 <= o0 < nops and 0 <= m1 < n_models and 0 <= o1 < nops
        acc, strict = bool(pick(acc, 0, 1)), bool(pick(strict, 0, 1))
        seq = [(pick(m0, 0, n_models - 1), pick(o0, 0, nops - 1))]
        if k >= 2:
            seq.append((seq[0][0], pick(o1, 0, nops - 1)))     # second operation on the same model (the pair space over two models is ~10^6 per document)
        with NoTracing():
            f = docenv.PARSER.parse(text, M.File, auto_claim_comments=acc)
            ms = tree_models(f)
            before_text = text_of(f)
            visible = [t for t in f.token_store if t.raw_text]
            for mi, oi in seq:
                read_op(READ_OPS[oi], ms[mi][1], strict)
                if twin:
                    raise Fail('twin reached the assertion point')
                what = '%s: %s on %s' % (doc, [(ms[a][0], READ_OPS[b]) for a, b in seq], 'strict' if strict else 'lenient')
                check(text_of(f) == before_text, what, 'changed the printed text', R(text_of(f)))
                vis = [t for t in f.token_store if t.raw_text]
                check(len(vis) == len(visible) and all(a is b for a, b in zip(vis, visible)), what, 'created, dropped or re-ordered a visible token')
                check([t.raw_text for t in vis] == [t.raw_text for t in visible], what, 'altered a visible token')
                docenv.tree_invariant(f, what=what)

    return 'readonly_%s_k%d%s' % (doc, k, '_twin' if twin else ''), cell


CELLS = {}


def _reg(name_fn, tiers, timeout, family, bounds, twin=False, cost=None):
    name, fn = name_fn
    assert name not in CELLS, 'duplicate cell name ' + name
    CELLS[name] = dict(fn=fn, tiers=tiers, timeout=timeout, family=family, bounds=bounds, twin=twin, cost=cost or timeout)


Q, T = ('quick', 'thorough'), ('thorough',)
KINDS = ['one token text', 'one structural edit', 'one spacing edit', 'in-place arithmetic reading the other side']
EKINDS = ['one token text (also: hash of the edited token vs a fresh equal token)', 'one child removed/added', 'comment ownership', 'other type with the same text (every token class)', 'spacing between tokens', 'ownership of interleaving comments (claim / unclaim on a repeated field)']
for _d in DOCS:
    for _acc in (1, 0):
        for _kind in range(4):
            if _kind == 3 and _d != 'txn':
                continue
            _reg(make_copy(_d, _acc, _kind, 11), {'C11': Q}, 900, 'copy',
                 'document %r, auto_claim_comments=%d: every tree model at any depth x %s (12 places) on copy or original' % (_d, _acc, KINDS[_kind]), cost=100)
            _reg(make_copy(_d, _acc, _kind, 47), {'C11': T}, 1800, 'copy',
                 'document %r, auto_claim_comments=%d: every tree model at any depth x %s (48 places) on copy or original' % (_d, _acc, KINDS[_kind]))
        for _kind in range(6):
            _reg(make_equal(_d, _acc, _kind, 11), {'C20': Q}, 900, 'equal',
                 'document %r, auto_claim_comments=%d: every tree model x perturbation: %s (12 places)' % (_d, _acc, EKINDS[_kind]), cost=100)
            _reg(make_equal(_d, _acc, _kind, 47), {'C20': T}, 1800, 'equal',
                 'document %r, auto_claim_comments=%d: every tree model x perturbation: %s (48 places)' % (_d, _acc, EKINDS[_kind]))
    _reg(make_readonly(_d, 1), {'C04': Q}, 1800, 'readonly', 'document %r: both attribution modes x every tree model x 13 non-editing operation kinds (incl. arithmetic on number expressions) (lenient/strict claims)' % _d, cost=300)
    _reg(make_readonly(_d, 2), {'C04': T}, 3300, 'readonly', 'document %r: both attribution modes x every tree model x every ordered pair of the 13 non-editing operation kinds on it' % _d)
_reg(make_copy('txn', 1, 0, 11, twin=True), {'C11': Q}, 120, 'copy', 'vacuity twin', twin=True, cost=1)
_reg(make_equal('txn', 1, 0, 11, twin=True), {'C20': Q}, 120, 'equal', 'vacuity twin', twin=True, cost=1)
_reg(make_readonly('txn', 1, twin=True), {'C04': Q}, 120, 'readonly', 'vacuity twin', twin=True, cost=1)

FILES = ['autobean_refactor/models/base.py', 'autobean_refactor/models/internal/repeated.py', 'autobean_refactor/models/number_add_expr.py',
         'autobean_refactor/models/number_mul_expr.py', 'autobean_refactor/models/block_comment.py',
         'autobean_refactor/models/internal/surrounding_comments.py', 'autobean_refactor/models/internal/interleaving_comments.py',
         'autobean_refactor/models/internal/properties.py', 'autobean_refactor/models/internal/value_properties.py']
ENCODES = ['autobean_refactor/models/base.py: RawTreeModel.__deepcopy__/__eq__, RawTokenModel.__eq__/__hash__/__deepcopy__, MappingTokenTransformer',
           'autobean_refactor/models/generated/*.py: clone, _eq, auto_claim_comments (every class reachable in the templates)',
           'autobean_refactor/models/internal/surrounding_comments.py: claim/unclaim_leading/trailing_comment',
           'autobean_refactor/models/internal/interleaving_comments.py: claim/unclaim_interleaving_comments']
STUBS = ['attribution mode, model ordinal, operation codes and token ordinals are symbolic selectors enumerated exhaustively by the solver; each combination runs natively']
OUTSIDE = ['documents other than the 4 listed (together they contain every directive class); more than one edit/perturbation; read-only sequences longer than 2']


def selftest():
    return docenv.selftest()
