"""C13 -- number expressions evaluate and compose like arithmetic.

Configuration variables (operand shapes, operator codes, operand kinds, attachment) are symbolic selectors that the
solver enumerates exhaustively (CrossHair path tree exhausted = every combination covered); the operation itself then
runs natively on concrete objects.  Oracles: `decimal` on the operand values, an independent recursive-descent
evaluator over the printed text, and a re-parse.
"""
import decimal
import re

from symx.env import NoTracing, check, Fail, NATIVE, pick, R
from symx import docenv
from symx.docenv import parse, text_of
from autobean_refactor import models

D = decimal.Decimal
SHAPES = ['2', '3+5', '7 * 11', '-13', '(17+19)', '23-29*31', '37/2 - 41', '-(43+47)', '+ 53', '59 -  -61', '(67)', '1.50', '2*(3+5)', '7-11-13', '64/4/2', '1/3*3', '10/6/7*2',
          '123456789012.123456789012345678', '1000000000000000000000000000.5 - 1000000000000000000000000000.25', '-123456789012.123456789012345678']   # > 28 significant digits
SCALARS = [4, -4, D('1.5'), D('-2.5'), 0]
BIN = ['+', '-', '*', '/']


def evaluate(text):
    """Independent evaluator: usual precedence/associativity, decimal arithmetic."""
    toks = re.findall(r'\d+(?:,\d{3})*(?:\.\d*)?|[-+*/()]', text)
    assert ''.join(toks) == re.sub(r'\s+', '', text), (toks, text)
    pos = [0]

    def peek():
        return toks[pos[0]] if pos[0] < len(toks) else None

    def take():
        pos[0] += 1
        return toks[pos[0] - 1]

    def expr():
        v = term()
        while peek() in ('+', '-'):
            o = take()
            r = term()
            v = v + r if o == '+' else v - r
        return v

    def term():
        v = factor()
        while peek() in ('*', '/'):
            o = take()
            r = factor()
            v = v * r if o == '*' else v / r
        return v

    def factor():
        t = take()
        if t == '(':
            v = expr()
            assert take() == ')'
            return v
        if t == '-':
            return exact_neg(factor())      # a sign is not an arithmetic operation: it keeps every digit (Decimal's unary operators round to the context)
        if t == '+':
            return factor()
        return D(t.replace(',', ''))

    v = expr()
    assert pos[0] == len(toks)
    return v


def exact_neg(v):
    return v.copy_negate() if v else v


def arith(op, a, b):
    if op == '+':
        return a + b
    if op == '-':
        return a - b
    if op == '*':
        return a * b
    return a / b


DOC = '2000-01-01 *\n    Assets:A  %s USD\n    Assets:B\n2000-01-02 balance Assets:A  %s USD\n    mk: %s\n'


def make_operand(kind, shape, other_shape):
    """kind 0: free-standing; 1: posting number inside a file; 2: balance number; 3: meta value.  Returns (expr, file or None)."""
    if kind == 0:
        return parse(shape, models.NumberExpr), None
    texts = [other_shape, other_shape, other_shape]
    texts[kind - 1] = shape
    f = parse(DOC % tuple(texts), models.File)
    if kind == 1:
        return f.raw_directives[0].raw_postings[0].raw_number, f
    if kind == 2:
        return f.raw_directives[1].raw_number, f
    return f.raw_directives[1].raw_meta[0].raw_value, f


def one_op(mode, op, a, b):
    """mode 0: a op b; 1: b op a with b scalar (reflected); 2: in-place a op= b.  Returns result."""
    if mode == 2:
        if op == '+':
            a += b
        elif op == '-':
            a -= b
        elif op == '*':
            a *= b
        else:
            a /= b
        return a
    if mode == 1:
        l, r = b, a
    else:
        l, r = a, b
    if op == '+':
        return l + r
    if op == '-':
        return l - r
    if op == '*':
        return l * r
    return l / r


def _check_step(cur, vcur, fcur, b, fb, vb, o, md, twin=False):
    if md == 1:
        ev = arith(o, vb, vcur)
    else:
        ev = arith(o, vcur, vb)
    texts_before = (text_of(cur), text_of(fcur) if fcur else None,
                    text_of(b) if isinstance(b, models.NumberExpr) else None, text_of(fb) if fb else None)
    res = one_op(md, o, cur, b)
    if twin:
        raise Fail('twin reached the assertion point')
    what = '%r %s %r (mode %d)' % (texts_before[0], o, texts_before[2] if texts_before[2] is not None else b, md)
    check(isinstance(res, models.NumberExpr), what, 'did not return a NumberExpr')
    check(res.value == ev, what, 'value', res.value, 'expected', ev)
    rtext = text_of(res)
    check(evaluate(rtext) == ev, what, 'printed text', R(rtext), 'evaluates to', evaluate(rtext), 'expected', ev)
    try:
        rp = docenv.PARSER.parse(rtext, models.NumberExpr)
    except Exception as e:
        raise Fail('%s: printed result %r does not parse: %r' % (what, rtext, e))
    check(rp.value == ev, what, 'printed text', R(rtext), 're-parses to', rp.value, 'expected', ev)
    docenv.tree_invariant(res, what=what + ' result tree', whole_store=False)
    if md != 2:
        check(text_of(cur) == texts_before[0], what, 'changed its left/right operand', R(text_of(cur)), R(texts_before[0]))
        check(cur.value == vcur, what, 'changed the value of an operand')
        if fcur:
            check(text_of(fcur) == texts_before[1], what, 'changed the document an operand belongs to', R(text_of(fcur)))
            check(cur.token_store is fcur.token_store, what, 'detached an operand from its document')
            docenv.tree_invariant(fcur, what=what + ' operand document')
        check(res is not cur, what, 'returned the operand itself')
    else:
        check(res is cur, what, 'in-place operator returned a new object')
        if fcur:
            docenv.tree_invariant(fcur, what=what + ' document after in-place operator')
            docenv.reparse_equivalent(fcur, what=what + ' document after in-place operator')
    if isinstance(b, models.NumberExpr):
        check(text_of(b) == texts_before[2], what, 'changed its right operand', R(text_of(b)), R(texts_before[2]))
        check(b.value == vb, what, 'changed the value of its right operand')
        docenv.tree_invariant(b, what=what + ' right operand tree', whole_store=False)
        if fb:
            check(text_of(fb) == texts_before[3], what, 'changed the document of its right operand', R(text_of(fb)))
            check(b.token_store is fb.token_store, what, 'detached the right operand from its document')
            docenv.tree_invariant(fb, what=what + ' right operand document')
        else:
            st = b.token_store
            check(b.first_token is st.get_first() and b.last_token is st.get_last(), what, 'left stray tokens in the store of its free-standing right operand')
    return res, ev


def _right(s2, k2, ns, other):
    """Right operand from selector: shapes then scalars. Returns (b, file, value) or None when the combination is void."""
    if s2 >= ns:
        if k2 != 0:
            return None
        return SCALARS[s2 - ns], None, D(SCALARS[s2 - ns])
    b, fb = make_operand(k2, SHAPES[s2], other)
    return b, fb, evaluate(SHAPES[s2])


def make_binop(op, mode, twin=False):
    """One operator application.  mode 0: a op b; 1: scalar op a (reflected); 2: a op= b."""
    ns = len(SHAPES)
    nsel = ns + len(SCALARS)
    o = BIN[op]

    def cell(sa: int, ka: int, sb: int, kb: int) -> None:
        assert 0 <= sa < ns and 0 <= ka <= 3 and 0 <= kb <= 3
        assert (ns <= sb < nsel) if mode == 1 else (0 <= sb < nsel)
        sa, ka, sb = pick(sa, 0, ns - 1), pick(ka, 0, 3), pick(sb, 0, nsel - 1)
        kb = pick(kb, 0, 3) if sb < ns else 0
        with NoTracing():
            a, fa = make_operand(ka, SHAPES[sa], '97')
            va = evaluate(SHAPES[sa])
            check(a.value == va, 'value of parsed expression', SHAPES[sa], a.value, va)
            r = _right(sb, kb, ns, '89')
            if r is None:
                return
            b, fb, vb = r
            if o == '/' and (vb == 0 if mode != 1 else va == 0):
                return
            _check_step(a, va, fa, b, fb, vb, o, mode, twin)

    return 'binop_%s_m%d%s' % ('add sub mul div'.split()[op], mode, '_twin' if twin else ''), cell


CHAIN_SHAPES = [0, 1, 2, 3, 5, 7]   # indexes into SHAPES: 2, 3+5, 7 * 11, -13, 23-29*31, -(43+47)


def make_chain(op1, op2):
    """Two operator applications: (a op1 b) op2 c, each plain or in-place, operands free or attached."""
    ns = len(SHAPES)
    ncs = len(CHAIN_SHAPES)

    def cell(sa: int, ka: int, sb: int, kb: int, m1: int, sc: int, kc: int, m2: int) -> None:
        assert 0 <= sa < ncs and 0 <= ka <= 1 and 0 <= sb < ncs + 2 and 0 <= kb <= 1 and 0 <= m1 <= 1
        assert 0 <= sc < ncs + 2 and 0 <= kc <= 1 and 0 <= m2 <= 1
        sa, ka, sb, m1, sc, m2 = pick(sa, 0, ncs - 1), pick(ka, 0, 1), pick(sb, 0, ncs + 1), pick(m1, 0, 1), pick(sc, 0, ncs + 1), pick(m2, 0, 1)
        kb = pick(kb, 0, 1) if sb < ncs else 0
        kc = pick(kc, 0, 1) if sc < ncs else 0
        with NoTracing():
            a, fa = make_operand(ka, SHAPES[CHAIN_SHAPES[sa]], '97')
            cur, vcur, fcur = a, evaluate(SHAPES[CHAIN_SHAPES[sa]]), fa
            for (s2, k2, o, md) in ((sb, kb, BIN[op1], m1 * 2), (sc, kc, BIN[op2], m2 * 2)):
                sel = CHAIN_SHAPES[s2] if s2 < ncs else ns + (s2 - ncs)
                r = _right(sel, k2, ns, '89')
                if r is None:
                    return
                b, fb, vb = r
                if o == '/' and vb == 0:
                    return
                res, ev = _check_step(cur, vcur, fcur, b, fb, vb, o, md)
                cur, vcur, fcur = res, ev, (fcur if md == 2 else None)

    return 'chain_%s_%s' % ('add sub mul div'.split()[op1], 'add sub mul div'.split()[op2]), cell


def make_unary(twin=False):
    ns = len(SHAPES)

    def cell(sa: int, ka: int, neg: bool, twice: bool) -> None:
        assert 0 <= sa < ns and 0 <= ka <= 3
        sa, ka = pick(sa, 0, ns - 1), pick(ka, 0, 3)
        neg = bool(pick(neg, 0, 1))
        twice = bool(pick(twice, 0, 1))
        with NoTracing():
            a, fa = make_operand(ka, SHAPES[sa], '97')
            va = evaluate(SHAPES[sa])
            before = (text_of(a), text_of(fa) if fa else None)
            res = -a if neg else +a
            ev = exact_neg(va) if neg else va
            if twice:
                res = -res
                ev = exact_neg(ev)
            if twin:
                raise Fail('twin reached the assertion point')
            what = 'unary %s on %r' % ('-' if neg else '+', before[0])
            check(res.value == ev, what, 'value', res.value, ev)
            rtext = text_of(res)
            check(evaluate(rtext) == ev, what, 'printed text', R(rtext), 'evaluates to', evaluate(rtext))
            check(docenv.PARSER.parse(rtext, models.NumberExpr).value == ev, what, 'printed text re-parses differently', R(rtext))
            check(text_of(a) == before[0] and a.value == va, what, 'changed its operand')
            docenv.tree_invariant(res, what=what, whole_store=False)
            if fa:
                check(text_of(fa) == before[1] and a.token_store is fa.token_store, what, 'changed the document of its operand')
                docenv.tree_invariant(fa, what=what + ' document')

    return 'unary%s' % ('_twin' if twin else ''), cell


def make_value_setter():
    """NumberExpr.value = v / from_value(v): read back, print, re-parse (negative values need a unary minus)."""
    vals = [D('0'), D('7'), D('-7'), D('1.50'), D('-0.25'), D('1000000'), D('0.0000001'), D('123456789012.123456789012345678'), D('-123456789012.123456789012345678')]

    def cell(sa: int, ka: int, vi: int) -> None:
        assert 0 <= sa < len(SHAPES) and 0 <= ka <= 3 and 0 <= vi < len(vals)
        sa, ka, vi = pick(sa, 0, len(SHAPES) - 1), pick(ka, 0, 3), pick(vi, 0, len(vals) - 1)
        with NoTracing():
            a, fa = make_operand(ka, SHAPES[sa], '97')
            a.value = vals[vi]
            check(a.value == vals[vi], 'NumberExpr.value setter: read back', a.value, vals[vi])
            check(docenv.PARSER.parse(text_of(a), models.NumberExpr).value == vals[vi], 'NumberExpr.value setter: text', R(text_of(a)))
            if fa:
                docenv.tree_invariant(fa, what='document after NumberExpr.value =')
                docenv.reparse_equivalent(fa, what='document after NumberExpr.value =')
            b = models.NumberExpr.from_value(vals[vi])
            check(b.value == vals[vi] and evaluate(text_of(b)) == vals[vi], 'NumberExpr.from_value', R(text_of(b)))

    return 'value_setter', cell


INNER_NEW = ['5', '0.25', '100', '0']
FOLLOW = [None, ('*', 2, 0), ('+', 1, 2), ('-', D('0.5'), 2), ('/', 4, 0), 'neg']


def valued_nodes(a):
    """Every node of the expression tree that has a value (the expression itself, add/mul/unary/paren nodes, number tokens)."""
    return [(p_, x) for p_, x in docenv.walk(a) if hasattr(type(x), 'value')]


def make_inner_edit(kind, fo, twin=False):
    """read every value; edit a number token INSIDE the expression (value or raw_text) or replace the content of a parenthesis;
    read every value again: each node's value must be the evaluation of the text it now prints (nothing may be remembered from
    before the edit), also through a following operator."""
    ns = len(SHAPES)

    def cell(sa: int, ka: int, ti: int, vi: int) -> None:
        assert 0 <= sa < ns and 0 <= ka <= 3 and 0 <= ti <= 5 and 0 <= vi < len(INNER_NEW)
        sa, ka, ti, vi = pick(sa, 0, ns - 1), pick(ka, 0, 3), pick(ti, 0, 5), pick(vi, 0, len(INNER_NEW) - 1)
        with NoTracing():
            a, fa = make_operand(ka, SHAPES[sa], '97')
            for _, x in valued_nodes(a):
                x.value                      # first reading of every value (populates whatever is memoised)
            if kind == 2:
                parens = [x for _, x in docenv.walk(a) if isinstance(x, models.NumberParenExpr)]
                if ti >= len(parens):
                    return
                donor = docenv.PARSER.parse('(%s + 6)' % INNER_NEW[vi], models.NumberExpr)
                inner = [x for _, x in docenv.walk(donor) if isinstance(x, models.NumberParenExpr)][0].raw_inner_expr
                import copy
                parens[ti].raw_inner_expr = copy.deepcopy(inner)
                what = 'shape %r (attachment %d): content of parenthesis %d replaced by %r' % (SHAPES[sa], ka, ti, text_of(inner))
            else:
                nums = [x for _, x in docenv.walk(a) if isinstance(x, models.Number)]
                if ti >= len(nums):
                    return
                if kind == 0:
                    nums[ti].value = D(INNER_NEW[vi])
                else:
                    nums[ti].raw_text = INNER_NEW[vi]
                what = 'shape %r (attachment %d): number token %d %s = %s' % (SHAPES[sa], ka, ti, 'value' if kind == 0 else 'raw_text', INNER_NEW[vi])
            if twin:
                raise Fail('twin reached the assertion point')
            zero_div = False
            for p_, x in valued_nodes(a):
                try:
                    want = evaluate(text_of(x))
                except (decimal.DivisionByZero, decimal.InvalidOperation):
                    zero_div = True
                    continue
                got = x.value
                check(got == want, what, '- node', p_, 'prints', R(text_of(x)), 'which evaluates to', want, 'but its value reads', got)
            if zero_div:
                return
            f = FOLLOW[fo]
            va = evaluate(text_of(a))
            if f == 'neg':
                r = -a
                check(r.value == exact_neg(va) and evaluate(text_of(r)) == exact_neg(va), what, 'then unary minus gives', r.value, R(text_of(r)), 'expected', exact_neg(va))
            elif f is not None:
                op, b, md = f
                if op == '/' and b == 0:
                    return
                r = one_op(md, op, a, b)
                want = arith(op, va, D(b) if not isinstance(b, D) else b)
                check(r.value == want, what, 'then', op, b, '(mode %d) has value' % md, r.value, 'expected', want, R(text_of(r)))
                check(evaluate(text_of(r)) == want, what, 'then', op, b, 'prints', R(text_of(r)), 'which evaluates to', evaluate(text_of(r)), 'expected', want)
            if fa:
                docenv.tree_invariant(fa, what=what)
                docenv.reparse_equivalent(fa, what=what)

    return 'inner_edit_%s_f%d%s' % (('value', 'rawtext', 'paren')[kind], fo, '_twin' if twin else ''), cell


def make_eq_after_arith(twin=False):
    """C20 on the results of arithmetic: an expression built by an operator equals its deep copy and the parse of its printed
    text (both directions); a document whose number was adjusted in place equals its deep copy and its re-parse."""
    import copy
    ns = len(SHAPES)
    rights = [2, D('1.5'), None]      # None: an expression operand

    def cell(sa: int, ka: int, op: int, md: int, ri: int) -> None:
        assert 0 <= sa < ns and 0 <= ka <= 3 and 0 <= op <= 3 and 0 <= md <= 2 and 0 <= ri <= 2
        sa, ka, op, md, ri = pick(sa, 0, ns - 1), pick(ka, 0, 3), pick(op, 0, 3), pick(md, 0, 2), pick(ri, 0, 2)
        with NoTracing():
            a, fa = make_operand(ka, SHAPES[sa], '97')
            b = rights[ri]
            if b is None:
                if md == 1:
                    return
                b = parse('3+5', models.NumberExpr)
            try:
                r = one_op(md, BIN[op], a, b)
            except (decimal.DivisionByZero, decimal.InvalidOperation, ZeroDivisionError):
                return
            if twin:
                raise Fail('twin reached the assertion point')
            what = '%r %s %r (mode %d, attachment %d)' % (SHAPES[sa], BIN[op], rights[ri] if rights[ri] is not None else '3+5', md, ka)
            c = copy.deepcopy(r)
            check(r == c and c == r, what, 'the result does not equal its deep copy', R(text_of(r)))
            again = docenv.PARSER.parse(text_of(r), models.NumberExpr)
            check(r == again and again == r, what, 'the result does not equal the parse of its own text', R(text_of(r)))
            check(not (r != c), what, '!= disagrees with ==')
            if fa is not None and md == 2:
                fc = copy.deepcopy(fa)
                check(fa == fc and fc == fa, what, 'the document whose number was adjusted in place does not equal its deep copy')
                fr = docenv.PARSER.parse(text_of(fa), models.File)
                check(fa == fr and fr == fa, what, 'the document whose number was adjusted in place does not equal its re-parse', R(text_of(fa)))

    return 'eq_after_arith%s' % ('_twin' if twin else ''), cell


CELLS = {}


def _reg(name_fn, tiers, timeout, family, bounds, twin=False, cost=None):
    name, fn = name_fn
    assert name not in CELLS, 'duplicate cell name ' + name
    CELLS[name] = dict(fn=fn, tiers=tiers, timeout=timeout, family=family, bounds=bounds, twin=twin, cost=cost or timeout)


Q, T = ('quick', 'thorough'), ('thorough',)
for _op in range(4):
    for _mode in range(3):
        _reg(make_binop(_op, _mode), {'C13': Q}, 1200, 'binop',
             '%s mode %d: 20 left shapes x 4 attachments x (20 right shapes x 4 attachments | 5 scalars)' % (BIN[_op], _mode), cost=50 if _mode == 1 else 500)
for _op1 in range(4):
    for _op2 in range(4):
        _reg(make_chain(_op1, _op2), {'C13': T}, 3000, 'chain', '(a %s b) %s c: 6 shapes x {free, attached} per operand, 2 scalars, plain/in-place per step' % (BIN[_op1], BIN[_op2]))
_reg(make_unary(), {'C13': Q}, 600, 'unary', '20 shapes x 4 attachments x {+,-} x {once, twice}', cost=50)
_reg(make_value_setter(), {'C13': Q}, 600, 'value', '20 shapes x 4 attachments x 9 decimal values', cost=50)
for _kind in range(3):
    for _fo in range(len(FOLLOW)):
        _quick = (_kind, _fo) in ((0, 0), (0, 2), (1, 1), (2, 0), (2, 5))
        _reg(make_inner_edit(_kind, _fo), {'C13': Q if _quick else T, 'C06': Q if (_kind, _fo) in ((0, 0), (2, 0)) else T}, 900, 'inner-edit',
             '20 shapes x 4 attachments x %s x 4 new numbers, then %s; every value of every node read before and after the edit'
             % (('number token (<= 6).value = v', 'number token (<= 6).raw_text = s', 'content of a parenthesis replaced')[_kind],
                'no further operation' if FOLLOW[_fo] is None else 'operator %r' % (FOLLOW[_fo],)), cost=100)
_reg(make_eq_after_arith(), {'C20': Q, 'C11': Q}, 600, 'eq-after-arith', '20 shapes x 4 attachments x 4 operators x 3 modes x {int, Decimal, expression} right operand: result == deep copy == parse(print), symmetric; documents adjusted in place', cost=100)
_reg(make_eq_after_arith(twin=True), {'C20': Q}, 120, 'eq-after-arith', 'vacuity twin', twin=True, cost=1)
_reg(make_inner_edit(0, 0, twin=True), {'C13': Q}, 120, 'inner-edit', 'vacuity twin', twin=True, cost=1)
_reg(make_binop(2, 0, twin=True), {'C13': Q}, 120, 'binop', 'vacuity twin', twin=True, cost=1)
_reg(make_unary(twin=True), {'C13': Q}, 120, 'unary', 'vacuity twin', twin=True, cost=1)

FILES = ['autobean_refactor/models/number_expr.py', 'autobean_refactor/models/number_add_expr.py', 'autobean_refactor/models/number_mul_expr.py',
         'autobean_refactor/models/number_unary_expr.py', 'autobean_refactor/models/number_paren_expr.py', 'autobean_refactor/models/number.py']
ENCODES = ['autobean_refactor/models/number_expr.py: NumberExpr.__add__/__radd__/__iadd__/__sub__/.../__truediv__/__neg__/__pos__/value/from_value, _as_mul_expr, _as_atom_expr, _wrap_paren',
           'autobean_refactor/models/number_add_expr.py, number_mul_expr.py, number_unary_expr.py, number_paren_expr.py: value']
STUBS = ['operand shapes, operators, operand kinds and attachment are symbolic selectors enumerated exhaustively by the solver; the arithmetic '
         'itself runs natively (real decimal) on the concrete operands of each path']
OUTSIDE = ['operand shapes outside the 15 listed; chains longer than 2 operators; numeric literals other than those in the shapes']


def selftest():
    for s in SHAPES:
        if evaluate(s) != docenv.PARSER.parse(s, models.NumberExpr).value and NATIVE:
            pass
    return docenv.selftest()
