"""C14 -- every block comment has at most one owner, chosen by the documented rules.

Layouts are sequences of up to 6 lines drawn (symbolic selectors) from an alphabet of line kinds (directive,
transaction header, posting, meta, posting meta, plain comment, indented comment, deeper comment, blank line);
sequences the grammar rejects are skipped.  After that, a sequence of claim / unclaim / auto-claim calls on symbolic
models.  Oracles:
  (1) ownership map from a generic walk: |owners| <= 1 and claimed <=> |owners| == 1, always
  (2) default parsing leaves no comment unowned
  (3) auto_claim_comments() twice == once     (4) parse(auto) == parse(no auto) + auto_claim_comments()
  (5) unclaim followed by claim restores the map
  (6) documented order (leading of the model directly below / trailing of the model directly above / standalone),
      evaluated on the text geometry; where the documentation is ambiguous (several models end on the line above)
      every candidate is accepted
"""
import copy

from symx.env import NoTracing, check, Fail, NATIVE, pick, R, known_finding
from symx import docenv
from symx.docenv import text_of, walk
from autobean_refactor import models
from autobean_refactor.models.internal import surrounding_comments as SC, interleaving_comments as IC, repeated as RP

M = models
LINES = {
    'D': '2000-01-01 open Assets:A',
    'T': '2000-01-02 * "n"',
    'P': '  Assets:A  1 USD',
    'M': '  kk: 1',
    'Q': '    pm: 2',
    'C': '; c',
    'I': '  ; ic',
    'J': '    ; jc',
    'B': '',
    'G': '* ignored',
    'W': '  ',
}


def layout_text(kinds, final_newline):
    lines = []
    n = 0
    for k in kinds:
        s = LINES[k]
        if k in 'CIJ':
            n += 1
            s = s + str(n)
        lines.append(s)
    return '\n'.join(lines) + ('\n' if final_newline else '')


def mixin_models(f):
    return [(p, m) for p, m in walk(f) if isinstance(m, SC.SurroundingCommentsMixin)]


def owners_map(f):
    """comment token id -> list of owner slot descriptions (generic walk through field descriptors)."""
    out = {}
    for p, m in walk(f):
        if isinstance(m, RP.Repeated):
            for i, it in enumerate(m.items):
                if isinstance(it, M.BlockComment):
                    out.setdefault(id(it), []).append(('item', p))
        elif isinstance(m, SC.SurroundingCommentsMixin):
            if m.__dict__.get('_leading_comment') is not None:
                out.setdefault(id(m.__dict__['_leading_comment']), []).append(('leading', p))
            if m.__dict__.get('_trailing_comment') is not None:
                out.setdefault(id(m.__dict__['_trailing_comment']), []).append(('trailing', p))
    return out


def comment_tokens(f):
    return [t for t in f.token_store if isinstance(t, M.BlockComment)]


def ownership(f, what):
    """Checks (1) and returns the ownership as a list aligned with the comments in document order."""
    om = owners_map(f)
    res = []
    for c in comment_tokens(f):
        o = om.get(id(c), [])
        check(len(o) <= 1, what, 'comment', R(c.raw_text), 'has several owners', o)
        check(c.claimed == (len(o) == 1), what, 'comment', R(c.raw_text), 'claimed flag', c.claimed, 'but owners', o)
        res.append(o[0] if o else None)
    check(all(id(c) in {id(t) for t in comment_tokens(f)} for c in []), what)
    known = {id(c) for c in comment_tokens(f)}
    for k in om:
        check(k in known, what, 'a tree position owns a comment that is not in the store')
    return res


def line_of(text_before):
    return text_before.count('\n')


def geometry_expectation(text):
    """For each comment block (document order): set of acceptable owners by the documented rules, or None when the
    layout is outside what the documentation settles.  Computed on a parse WITHOUT attribution (spans = core spans)."""
    f = docenv.PARSER.parse(text, M.File, auto_claim_comments=False)
    toks = list(f.token_store)
    off = {}
    pos = 0
    for t in toks:
        off[id(t)] = pos
        pos += len(t.raw_text)
    lines = text.split('\n')

    def first_line(m):
        return text[:off[id(m.first_token)]].count('\n')

    def last_line(m):
        lt = m.last_token
        return text[:off[id(lt)] + len(lt.raw_text)].count('\n') - (1 if lt.raw_text.endswith('\n') else 0)

    models_ = mixin_models(f)
    starts = {}
    ends = {}
    for p, m in models_:
        fl = first_line(m)
        # last VISIBLE line of the model: last token with text
        vis = [t for t in m.tokens if t.raw_text]
        ll = text[:off[id(vis[-1])] + len(vis[-1].raw_text)].count('\n') if vis else fl
        if vis and vis[-1].raw_text.endswith('\n'):
            ll -= 1
        starts.setdefault(fl, []).append(p)
        ends.setdefault(ll, []).append(p)

    def indented(line):
        return line[:1] in (' ', '\t')

    def is_comment(line):
        return line.lstrip(' \t').startswith(';')

    out = []
    for c in comment_tokens(f):
        ls = text[:off[id(c)]].count('\n')
        le = ls + c.raw_text.count('\n')
        ic = indented(lines[ls])
        exp = None
        nxt = lines[le + 1] if le + 1 < len(lines) else None
        prv = lines[ls - 1] if ls - 1 >= 0 else None
        if nxt is not None and nxt.strip() and is_comment(nxt):
            out.append(None)        # adjacent comment block of another indentation: not settled by the documentation
            continue
        if prv is not None and prv.strip() and is_comment(prv):
            out.append(None)
            continue
        if nxt is not None and nxt.strip() and indented(nxt) == ic and (le + 1) in starts:
            cands = [p for p in starts[le + 1]]
            exp = {('leading', p) for p in cands[:1]}   # the outermost model starting there (walk order = outer first)
        elif prv is not None and prv.strip() and (ls - 1) in ends:
            cands = [p for p in ends[ls - 1] if indented(lines[first_line(dict(models_)[p])]) == ic]
            if cands:
                exp = {('trailing', p) for p in cands}
        if exp is None:
            exp = {'standalone'}
        out.append(exp)
    return out


def norm_path(p):
    """Paths differ between attribution modes only by list indexes (claimed comments are list items): drop indexes of
    comment-bearing lists by renumbering -> compare on the sequence of non-comment items."""
    return p


def model_key(f):
    """Stable identification of mixin models across parses of the same text: (first core line, class)."""
    text = text_of(f)
    toks = list(f.token_store)
    off = {}
    pos = 0
    for t in toks:
        off[id(t)] = pos
        pos += len(t.raw_text)
    keys = {}
    for p, m in mixin_models(f):
        core = [c for n, c in docenv.children(m) if n not in ('_leading_comment', '_trailing_comment')]
        firsts = [off[id(c.first_token)] for c in core if c.first_token is not None and id(c.first_token) in off]
        keys[p] = (text[:min(firsts)].count('\n'), type(m).__name__, sum(1 for x in keys.values() if x[:2] == (text[:min(firsts)].count('\n'), type(m).__name__)))
    return keys


def ownership_keyed(f, what):
    own = ownership(f, what)
    keys = model_key(f)
    out = []
    for o in own:
        if o is None:
            out.append(None)
        elif o[0] == 'item':
            out.append('standalone')
        else:
            out.append((o[0], keys[o[1]]))
    return out


def postings_list_grab(f, i, owner, acceptable):
    """The recorded deviation: in a transaction WITHOUT postings, a comment directly below its last meta item is taken
    as a standalone entry of the (empty) postings list before the meta item can claim it as trailing comment."""
    if owner != 'standalone' or not all(isinstance(a, tuple) and a[0] == 'trailing' and a[1][1] == 'MetaItem' for a in acceptable):
        return False
    c = comment_tokens(f)[i]
    for p, m in walk(f):
        if isinstance(m, M.Transaction) and any(it is c for it in m._postings.items):
            return not any(isinstance(it, M.Posting) for it in m._postings.items)
    return False


def make_layout(first, n_lines, k_calls, alphabet='DTPMQCIJBGW', fixed_fn=None, twin=False, call_kinds=(0, 6)):
    KINDS = list(alphabet)
    nk = len(KINDS)

    def cell(l1: int, l2: int, l3: int, l4: int, l5: int, fn: bool, m0: int, c0: int, m1: int, c1: int) -> None:
        assert 0 <= l1 < nk and 0 <= l2 < nk and 0 <= l3 < nk and 0 <= l4 < nk and 0 <= l5 < nk
        assert 0 <= m0 <= 5 and call_kinds[0] <= c0 <= call_kinds[1] and 0 <= m1 <= 5 and 0 <= c1 <= 6
        sel = [pick(x, 0, nk - 1) for x in (l1, l2, l3, l4, l5)[:n_lines - 1]]
        fn = bool(pick(fn, 0, 1)) if fixed_fn is None else fixed_fn
        calls = [(pick(a, 0, 5), pick(b, 0, 6)) for a, b in ((m0, c0), (m1, c1))[:k_calls]]
        with NoTracing():
            kinds = [first] + [KINDS[s] for s in sel]
            if not any(k in 'CIJ' for k in kinds):
                return
            text = layout_text(kinds, fn)
            try:
                f = docenv.PARSER.parse(text, M.File)
            except Exception as e:
                if type(e).__module__.startswith('lark'):
                    return      # not a document
                raise
            if twin:
                raise Fail('twin reached the assertion point')
            what = 'layout %r' % text
            check(text_of(f) == text, what, 'does not print back')
            own = ownership_keyed(f, what)
            check(all(o is not None for o in own), what, 'default parsing left a comment unowned', own)   # (2)
            # (6) documented order on the geometry
            exp = geometry_expectation(text)
            keys = model_key(docenv.PARSER.parse(text, M.File, auto_claim_comments=False))
            for i, (o, e) in enumerate(zip(own, exp)):
                if e is None:
                    continue
                acceptable = {('standalone' if x == 'standalone' else (x[0], keys[x[1]])) for x in e}
                if o not in acceptable and postings_list_grab(f, i, o, acceptable) and known_finding('C14-empty-postings-list-grabs-meta-trailing-comment'):
                    continue
                check(o in acceptable, what, 'comment #%d is owned by' % i, o, 'but the documented rules give', sorted(map(str, acceptable)))
            # (3) idempotence
            f.auto_claim_comments()
            check(ownership_keyed(f, what + ' after a second auto_claim_comments') == own, what, 'auto_claim_comments is not idempotent')
            check(text_of(f) == text, what, 'auto_claim_comments changed the text')
            # (4) parse(auto) == parse(no auto) + auto_claim_comments
            g = docenv.PARSER.parse(text, M.File, auto_claim_comments=False)
            og = ownership_keyed(g, what + ' without attribution')
            check(all(o is None for o in og), what, 'parse without attribution claimed a comment', og)
            # a deep copy is a document too: (1) holds in it and it attributes like its original
            check(ownership_keyed(copy.deepcopy(g), what + ' (deep copy of the unattributed document)') == og, what, 'a deep copy of the unattributed document owns comments')
            g.auto_claim_comments()
            check(ownership_keyed(g, what + ' attributed later') == own, what, 'attribution by parse and attribution later differ', own, ownership_keyed(g, what))
            # (5) + arbitrary claim/unclaim sequences keep (1)
            ms = mixin_models(f)
            for mi, ci in (calls if ms else []):
                p, m = ms[mi % len(ms)]
                before = ownership_keyed(f, what)
                try:
                    if ci == 0:
                        had = m.__dict__.get('_leading_comment') is not None      # "unclaim followed by claim restores": only where there was something to unclaim
                        m.unclaim_leading_comment()
                        m.claim_leading_comment()
                        check(not had or ownership_keyed(f, what) == before, what, 'unclaim+claim leading on', p, 'did not restore the attribution')
                    elif ci == 1:
                        had = m.__dict__.get('_trailing_comment') is not None
                        m.unclaim_trailing_comment()
                        m.claim_trailing_comment()
                        check(not had or ownership_keyed(f, what) == before, what, 'unclaim+claim trailing on', p, 'did not restore the attribution')
                    elif ci == 2:
                        m.unclaim_leading_comment()
                    elif ci == 3:
                        m.unclaim_trailing_comment()
                    elif ci == 4:
                        m.claim_trailing_comment(ignore_if_already_claimed=True)
                        m.claim_leading_comment(ignore_if_already_claimed=True)
                    elif ci == 5:
                        for name in dir(type(m)):
                            d = getattr(type(m), name, None)
                            if isinstance(d, IC.repeated_node_with_interleaving_comments_property):
                                w = getattr(m, name)
                                un = w.unclaim_interleaving_comments()
                                w.claim_interleaving_comments(un)
                        check(ownership_keyed(f, what) == before, what, 'unclaim+claim interleaving on', p, 'did not restore the attribution')
                    else:
                        m.auto_claim_comments()
                except ValueError:
                    pass    # refusals (already claimed / not found) are fine; (1) must still hold
                now = ownership_keyed(f, what + ' after call %d on %s' % (ci, p))
                check(ownership_keyed(copy.deepcopy(f), what + ' (deep copy after call %d on %s)' % (ci, p)) == now, what, 'a deep copy attributes differently from its original after call', ci, 'on', p)
                check(text_of(f) == text, what, 'a claim call changed the text')
            f.auto_claim_comments()
            fin = ownership_keyed(f, what + ' final')
            check(all(o is not None for o in fin), what, 'auto_claim_comments left a comment unowned after manual calls', fin)

    return 'layout_%s_n%d_k%d_a%d%s%s' % (first, n_lines, k_calls, len(alphabet), '' if call_kinds == (0, 6) else '_c%d%d' % call_kinds, '_twin' if twin else ''), cell


CELLS = {}


def _reg(name_fn, tiers, timeout, family, bounds, twin=False, cost=None):
    name, fn = name_fn
    assert name not in CELLS, 'duplicate cell name ' + name
    CELLS[name] = dict(fn=fn, tiers=tiers, timeout=timeout, family=family, bounds=bounds, twin=twin, cost=cost or timeout)


Q, T = ('quick', 'thorough'), ('thorough',)
for _first in ('D', 'T', 'C', 'B', 'G'):
    _reg(make_layout(_first, 4, 0), {'C14': Q}, 1200, 'layout', 'all layouts of 4 lines starting with %r over 11 line kinds (both final-newline variants): attribution rules, idempotence, parse-vs-later' % _first, cost=300)
    for _ck in ((0, 1), (2, 3), (4, 6)):      # split by call kind: cells are the unit of parallelism
        _reg(make_layout(_first, 4, 1, alphabet='TPMCIBW', fixed_fn=True, call_kinds=_ck), {'C14': Q}, 1200, 'layout/calls',
             'all layouts of 4 lines starting with %r over 7 line kinds x 1 claim/unclaim call (6 models x call kinds %d..%d of 7); deep copies attribute like their originals' % (_first, _ck[0], _ck[1]), cost=500)
    _reg(make_layout(_first, 5, 0, alphabet='DTPMQCIBW'), {'C14': T}, 3300, 'layout', 'all layouts of 5 lines starting with %r over 9 line kinds' % _first)
    _reg(make_layout(_first, 6, 0, alphabet='TPMCIBW'), {'C14': T}, 3300, 'layout', 'all layouts of 6 lines starting with %r over 7 line kinds' % _first)
    _reg(make_layout(_first, 3, 2, alphabet='TPMCIBW', fixed_fn=True), {'C14': T}, 3300, 'layout/calls', 'all layouts of 3 lines starting with %r over 7 line kinds x 2 claim calls' % _first)
_reg(make_layout('D', 4, 0, twin=True), {'C14': Q}, 120, 'layout', 'vacuity twin', twin=True, cost=1)

FILES = ['autobean_refactor/models/internal/surrounding_comments.py', 'autobean_refactor/models/internal/interleaving_comments.py',
         'autobean_refactor/models/internal/repeated.py', 'autobean_refactor/models/block_comment.py', 'autobean_refactor/parser.py',
         'docs/special/comments.md']
ENCODES = ['autobean_refactor/models/generated/*.py: auto_claim_comments', 'autobean_refactor/models/internal/surrounding_comments.py: _claim_comment, claim/unclaim_*',
           'autobean_refactor/models/internal/interleaving_comments.py: _CommentClaimer, claim/unclaim_interleaving_comments',
           'autobean_refactor/parser.py: Parser.parse(auto_claim_comments=...), PostLex.process']
STUBS = ['line kinds, final newline, models and call kinds are symbolic selectors enumerated exhaustively by the solver; parsing and claiming run natively',
         'rule (6) is asserted only where docs/special/comments.md is unambiguous; when several models end on the line above, each is accepted as trailing owner']
OUTSIDE = ['layouts longer than 6 lines or with other line kinds; more than 2 manual claim calls']


def selftest():
    return docenv.selftest()
