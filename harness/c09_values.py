"""C09 -- a value written through a property is the value read back, siblings unaffected, surviving re-parse.

generic_<Scaffold>   property ordinal (all value-level properties of the class, found by introspection of the
                     descriptor objects) x value choice (None for optional ones, in-domain alternatives, and for
                     string-like types a text with one SYMBOLIC code point): read back, other properties unchanged,
                     tree invariant, and the same readings on parse(print(file)).
cost_<k>_<form>      k assignments to number_per / number_total / currency (and date/label/merge) from each initial
                     concrete cost form, against the record-of-optionals model with its two documented rejections.
payee_<k>            k assignments to payee / narration from the four initial forms (payee implies narration).
"""
import datetime
import decimal

from symx.env import NoTracing, realize, check, Fail, NATIVE, pick, R, pset, pget
from symx import docenv
from symx.docenv import text_of
from autobean_refactor import models
from autobean_refactor.models.internal import value_properties as VP
from autobean_refactor.models import meta_value_internal as MV

M = models
D = decimal.Decimal
PRE = '2000-01-01 open Assets:Z\n\n'
POST = '\n\n2000-12-31 close Assets:Z\n'

VALUE_DESCRIPTORS = (VP.required_value_property, VP.optional_string_property, VP.optional_indented_string_property,
                     VP.optional_decimal_property, VP.optional_date_property, MV.optional_meta_value_property)
GROUPS = {
    'Transaction': [{'payee', 'narration', 'string0', 'string1', 'string2'}],
    'CostSpec': [{'number_per', 'number_total', 'currency'}],
}


def value_props(cls):
    out = []
    for name in sorted(dir(cls)):
        if name.startswith('_'):
            continue
        d = None
        for k in cls.__mro__:
            if name in vars(k):
                d = vars(k)[name]
                break
        if isinstance(d, VALUE_DESCRIPTORS):
            out.append((name, d))
    if cls is M.CostSpec:
        out.append(('merge', None))
    return out


def readings(m):
    return {name: getattr(m, name) for name, _ in value_props(type(m))}


def inner_type(m, name, d):
    if d is None:
        return bool
    if isinstance(d, MV.optional_meta_value_property):
        return 'meta'
    t = getattr(d, '_inner_type', None)
    if t is not None:
        return t
    return type(d._inner_property.__get__(m))


def optional(d):
    return d is not None and not isinstance(d, VP.required_value_property)


STR_SYM = object()   # marker: a text containing one symbolic code point
CANDIDATES = {
    M.EscapedString: ['new val', '', 'q"u\\o\nx', 'tab\tand \\n', STR_SYM],
    M.Account: ['Assets:New', 'Equity:X-1'],
    M.Currency: ['CAD', 'A.B-C'],
    M.Date: [datetime.date(2021, 2, 3), datetime.date(1999, 12, 31)],
    M.NumberExpr: [D('7'), D('-1.5'), D('0.10'), D('0'), D('123456789012.123456789012345678'), D('-123456789012.123456789012345678')],     # 30 significant digits: more than the decimal context keeps in arithmetic
    M.Number: [D('7'), D('0.10'), D('0'), D('123456789012.123456789012345678')],
    M.Bool: [True, False],
    M.InlineComment: ['note', '', '; x ;', STR_SYM],
    M.BlockComment: ['bc', 'two\nlines', 'a\n\nb', ';x', 'a\n  \nb', 'a\n\t\nb', ' ', STR_SYM],      # lines made of blanks only
    M.Tag: ['new-tag'],
    M.Link: ['new-link'],
    M.MetaKey: ['newkey'],
    M.PostingFlag: ['!', 'P'],
    M.TransactionFlag: ['!', '*', 'P'],
    M.Indent: ['  ', '\t', '      '],
    bool: [True, False],
    'meta': ['str val', 'q"u\\o', D('3'), D('-2.5'), D('-123456789012.123456789012345678'), datetime.date(2001, 2, 3), True, False],   # `match value: case str()` does not recognise CrossHair's symbolic str: concrete only
}


def in_domain_char(t, c):
    """Domain of the symbolic code point for a string-like type (meanings of the type's lexemes)."""
    if t is M.EscapedString or t == 'meta':
        return True
    return (c != 10) & (c != 13)   # comment lines: no CR/LF inside the free part


class Scaf:
    def __init__(self, name, template, get, embed=True):
        self.name, self.template, self.get, self.embed = name, template, get, embed

    def text(self):
        return (PRE + self.template + POST) if self.embed else self.template

    def build(self):
        f = docenv.PARSER.parse(self.text(), M.File)
        return f, self.get(f)


_D1 = lambda f: f.raw_directives[1]
_TXN = '2000-01-01 * "p" "n" #t ^l ; ic\n  kk: 1\n  ! Assets:A  1 USD {2 EUR, 2000-01-02, "lb", *} @ 3 GBP ; pic\n    mm: "x"\n  Assets:B  -1 USD @@ 4 CHF'
SCAFS = [Scaf(n, docenv.TEMPLATES[n][0], _D1) for n in
         ('Option', 'Include', 'Plugin', 'Pushtag', 'Poptag', 'Pushmeta', 'Popmeta', 'Balance', 'Close', 'Commodity', 'Pad', 'Event', 'Query',
          'Price', 'Note', 'Document', 'Open', 'Custom')]
SCAFS += [
    Scaf('Plugin2', docenv.TEMPLATES['Plugin'][1], _D1),
    Scaf('Balance2', docenv.TEMPLATES['Balance'][1], _D1),
    Scaf('Open2', docenv.TEMPLATES['Open'][1], _D1),
    Scaf('Pushmeta2', docenv.TEMPLATES['Pushmeta'][1], _D1),
    Scaf('Transaction', _TXN, _D1),
    Scaf('Posting', _TXN, lambda f: f.raw_directives[1].raw_postings[0]),
    Scaf('Posting2', _TXN, lambda f: f.raw_directives[1].raw_postings[1]),
    Scaf('TxnMeta', _TXN, lambda f: f.raw_directives[1].raw_meta[0]),
    Scaf('PostingMeta', _TXN, lambda f: f.raw_directives[1].raw_postings[0].raw_meta[0]),
    Scaf('CostSpec', _TXN, lambda f: f.raw_directives[1].raw_postings[0].raw_cost),
    Scaf('UnitPrice', _TXN, lambda f: f.raw_directives[1].raw_postings[0].raw_price),
    Scaf('TotalPrice', _TXN, lambda f: f.raw_directives[1].raw_postings[1].raw_price),
    Scaf('Amount', docenv.TEMPLATES['Price'][0], lambda f: f.raw_directives[1].raw_amount),
    Scaf('Tolerance', docenv.TEMPLATES['Balance'][0], lambda f: f.raw_directives[1].raw_tolerance),
    Scaf('CompoundAmount', '2000-01-01 *\n  Assets:A  1 USD {1 # 2 EUR}\n  Assets:B', lambda f: f.raw_directives[1].raw_postings[0].raw_cost.raw_compound_amount_comp),
    Scaf('MetaItemBare', '2000-01-01 close Assets:A\n  kk:\n  k2: NULL ; c', lambda f: f.raw_directives[1].raw_meta[0]),
]
# a meta item for every kind of current raw value: assigning a plain value must replace it whatever it was
for _kind, _raw in (('Acc', 'Assets:Foo'), ('Cur', 'USD'), ('Tag', '#foo'), ('Str', '"s"'), ('Date', '2000-02-03'), ('Bool', 'FALSE'), ('Null', 'NULL'),
                    ('Amount', '1 USD'), ('Num', '1+2'), ('Neg', '-3')):
    SCAFS.append(Scaf('MetaItem' + _kind, '2000-01-01 close Assets:A\n  kk: %s\n  k2: 1' % _raw, lambda f: f.raw_directives[1].raw_meta[0]))
    SCAFS.append(Scaf('Pushmeta' + _kind, 'pushmeta kk: %s' % _raw, _D1))
SCAF = {s.name: s for s in SCAFS}


def group_of(cls, name):
    for g in GROUPS.get(cls.__name__, []):
        if name in g:
            return g
    return {name}


def make_generic(scaf_name, twin=False):
    sc = SCAF[scaf_name]
    with NoTracing():
        f0, m0 = sc.build()
        props = value_props(type(m0))
        types = [inner_type(m0, n, d) for n, d in props]
        cands = []
        for (n, d), t in zip(props, types):
            c = list(CANDIDATES.get(t, []))
            if optional(d):
                c = [None] + c
            cands.append(c)
    nprops = len(props)
    maxc = max([len(c) for c in cands] + [1])

    def cell(pi: int, vi: int, c0: int) -> None:
        assert 0 <= pi < nprops and 0 <= vi < maxc and 0 <= c0 <= 0x10FFFF
        pi = pick(pi, 0, nprops - 1)
        if len(cands[pi]) == 0:
            return
        vi = pick(vi, 0, maxc - 1)
        if vi >= len(cands[pi]):
            return
        name, d = props[pi]
        v = cands[pi][vi]
        if name in ('payee', 'narration', 'string0', 'string1', 'string2', 'number_per', 'number_total') or (type(m0) is M.CostSpec and name == 'currency'):
            return   # dependent groups: cost_* and payee_* cells
        if v is STR_SYM:
            if not in_domain_char(types[pi], c0):
                return
            v = 'a' + chr(c0) + 'b'
            # symbolic phase: for EVERY code point of the domain the assignment is accepted and reads back
            with NoTracing():
                f, m = sc.build()
            pset(m, name, v)
            got = pget(m, name)
            check(got == v, 'read back differs:', type(m).__name__ + '.' + name, '=', R(v), 'reads', R(got))
            return   # siblings / re-parse are decided on the concrete alternatives (which include the characters the codecs distinguish)
        with NoTracing():
            f, m = sc.build()
            docenv.warm(f)
            before = readings(m)
            setattr(m, name, v)
            if twin:
                raise Fail('twin reached the assertion point')
            got = getattr(m, name)
            check(got == v, 'read back differs:', type(m).__name__ + '.' + name, '=', R(v), 'reads', R(got))
            after = readings(m)
            grp = group_of(type(m), name)
            for k in before:
                if k in grp:
                    continue
                check(after[k] == before[k], 'assigning', type(m).__name__ + '.' + name, 'changed sibling property', k, R(before[k]), '->', R(after[k]))
            docenv.tree_invariant(f, what='tree after %s.%s = ...' % (type(m).__name__, name))
            docenv.tokens_consistent(f.token_store, what='after %s.%s = %r' % (type(m).__name__, name, v))
            text = text_of(f)
            try:
                f2 = docenv.PARSER.parse(text, M.File)
            except Exception as e:
                raise Fail('document no longer parses after %s.%s = %r: %r: %r' % (type(m).__name__, name, v, text, e))
            m2 = sc.get(f2)
            check(type(m2) is type(m), 'after re-parse the model at the same place has another type', type(m2).__name__)
            r2 = readings(m2)
            check(docenv.comments_of(f.token_store) == docenv.comments_of(f2.token_store), 'block comments differ after re-parse', R(text))
            for k in after:
                if k in ('leading_comment', 'trailing_comment'):
                    continue   # a comment between two siblings is re-attributed on re-parse (leading of the one below): attribution, not content
                a, b = after[k], r2[k]
                if isinstance(a, M.RawModel) or isinstance(b, M.RawModel):
                    same = type(a) is type(b) and text_of(a) == text_of(b)
                else:
                    same = a == b
                check(same, 'after print and re-parse', type(m).__name__ + '.' + k, 'reads', R(b), 'instead of', R(a), 'text', R(text))

    return 'generic_%s%s' % (scaf_name, '_twin' if twin else ''), cell


# ------------------------------------------------------------------------------------------------------------------
COST_FORMS = ['{}', '{{}}', '{1}', '{{1}}', '{USD}', '{{USD}}', '{1 USD}', '{{1 USD}}', '{1 # 2 USD}', '{# 2 USD}', '{1 # USD}',
              '{2000-01-01, "l", *}', '{1 USD, 2000-01-01, "l"}', '{{1 USD, *}}', '{{1 # 2 USD}}', '{{# 2 USD}}', '{{1 # USD}}', '{ 1   USD , * }']
COST_OPS = [('number_per', None), ('number_per', D('7')), ('number_total', None), ('number_total', D('8')), ('currency', None), ('currency', 'CAD'),
            ('number_per', D('0')), ('number_total', D('0')),
            ('date', None), ('date', datetime.date(2021, 3, 4)), ('label', None), ('label', 'lb2'), ('merge', True), ('merge', False)]


def cost_record(c):
    return {'number_per': c.number_per, 'number_total': c.number_total, 'currency': c.currency, 'date': c.date, 'label': c.label, 'merge': c.merge}


def cost_step(rec, fld, v):
    rec = dict(rec)
    rec[fld] = v
    if rec['number_per'] is not None and rec['number_total'] is not None and rec['currency'] is None:
        return None   # documented rejection: both numbers need a currency
    return rec


def make_cost(form_i, k, n_ops, twin=False):
    form = COST_FORMS[form_i]
    text = PRE + '2000-01-01 *\n  Assets:A  1 XX %s @ 3 GBP\n  Assets:B' % form + POST
    get = lambda f: f.raw_directives[1].raw_postings[0].raw_cost

    def cell(o0: int, o1: int, o2: int) -> None:
        assert 0 <= o0 < n_ops and 0 <= o1 < n_ops and 0 <= o2 < n_ops
        ops = [pick(o, 0, n_ops - 1) for o in (o0, o1, o2)[:k]]
        with NoTracing():
            f = docenv.PARSER.parse(text, M.File)
            docenv.warm(f)
            c = get(f)
            rec = cost_record(c)
            hist = []
            for oi in ops:
                fld, v = COST_OPS[oi]
                hist.append((fld, v))
                exp = cost_step(rec, fld, v)
                before_text = text_of(f)
                try:
                    setattr(c, fld, v)
                    raised = None
                except ValueError as e:
                    raised = e
                if twin:
                    raise Fail('twin reached the assertion point')
                what = 'cost %s after %r' % (form, hist)
                if exp is None:
                    check(raised is not None, what, 'both numbers without a currency was accepted:', R(text_of(f)))
                    check(text_of(f) == before_text, what, 'a refused assignment changed the document', R(text_of(f)))
                    check(cost_record(c) == rec, what, 'a refused assignment changed the readings')
                    continue
                check(raised is None, what, 'a legal assignment was refused', repr(raised))
                rec = exp
                got = cost_record(c)
                check(got == rec, what, 'expected', rec, 'got', got, 'text', R(text_of(f)))
                docenv.tree_invariant(f, what=what)
                t2 = text_of(f)
                try:
                    f2 = docenv.PARSER.parse(t2, M.File)
                except Exception as e:
                    raise Fail('%s: document no longer parses: %r: %r' % (what, t2, e))
                c2 = get(f2)
                check(c2 is not None and cost_record(c2) == rec, what, 'after re-parse', cost_record(c2) if c2 is not None else None, 'expected', rec, 'text', R(t2))
                check(docenv.valuedump(f) == docenv.valuedump(f2), what, 'value-level readings of the document differ from those of its re-parsed text', R(t2))

    return 'cost_%d_o%d_f%02d%s' % (k, n_ops, form_i, '_twin' if twin else ''), cell


PAYEE_FORMS = ['2000-01-01 *', '2000-01-01 * "n"', '2000-01-01 * "p" "n"', '2000-01-01 * "p" "n" #t ^l ; ic', '2000-01-01 * "" ""']
PAYEE_OPS = [('payee', None), ('payee', 'P2'), ('payee', ''), ('narration', None), ('narration', 'N2'), ('narration', '')]


def payee_step(rec, fld, v):
    payee, narr = rec
    if fld == 'payee':
        payee = v
        if v is not None and narr is None:
            narr = ''
    else:
        narr = v
        if v is None and payee is not None:
            narr = ''
    return (payee, narr)


def make_payee(k, twin=False):
    nf, no = len(PAYEE_FORMS), len(PAYEE_OPS)

    def cell(fi: int, o0: int, o1: int, o2: int) -> None:
        assert 0 <= fi < nf and 0 <= o0 < no and 0 <= o1 < no and 0 <= o2 < no
        fi = pick(fi, 0, nf - 1)
        ops = [pick(o, 0, no - 1) for o in (o0, o1, o2)[:k]]
        with NoTracing():
            text = PRE + PAYEE_FORMS[fi] + '\n  Assets:A  1 USD\n  Assets:B' + POST
            f = docenv.PARSER.parse(text, M.File)
            docenv.warm(f)
            t = f.raw_directives[1]
            rec = (t.payee, t.narration)
            other = {n: getattr(t, n) for n in ('date', 'flag', 'inline_comment', 'leading_comment', 'trailing_comment')}
            tags = (list(t.tags), list(t.links))
            hist = []
            for oi in ops:
                fld, v = PAYEE_OPS[oi]
                hist.append((fld, v))
                setattr(t, fld, v)
                if twin:
                    raise Fail('twin reached the assertion point')
                rec = payee_step(rec, fld, v)
                what = 'transaction %r after %r' % (PAYEE_FORMS[fi], hist)
                check((t.payee, t.narration) == rec, what, 'expected', rec, 'got', (t.payee, t.narration), R(text_of(t)))
                check({n: getattr(t, n) for n in other} == other and (list(t.tags), list(t.links)) == tags, what, 'changed an unrelated property')
                docenv.tree_invariant(f, what=what)
                t2 = text_of(f)
                try:
                    f2 = docenv.PARSER.parse(t2, M.File)
                except Exception as e:
                    raise Fail('%s: document no longer parses: %r: %r' % (what, t2, e))
                u = f2.raw_directives[1]
                check((u.payee, u.narration) == rec, what, 'after re-parse', (u.payee, u.narration), 'expected', rec, R(t2))
                check((list(u.tags), list(u.links)) == tags, what, 'tags/links differ after re-parse', R(t2))

    return 'payee_%d%s' % (k, '_twin' if twin else ''), cell


CELLS = {}


def _reg(name_fn, tiers, timeout, family, bounds, twin=False, cost=None):
    name, fn = name_fn
    assert name not in CELLS, 'duplicate cell name ' + name
    CELLS[name] = dict(fn=fn, tiers=tiers, timeout=timeout, family=family, bounds=bounds, twin=twin, cost=cost or timeout)


Q, T = ('quick', 'thorough'), ('thorough',)
for _s in SCAFS:
    _reg(make_generic(_s.name), {'C09': Q}, 900, 'generic', '%s: every value property x {None, in-domain alternatives, text with 1 symbolic code point}' % _s.name, cost=100)
for _i in range(len(COST_FORMS)):
    _reg(make_cost(_i, 3, 8), {'C09': Q, 'C19': Q}, 900, 'cost', 'cost form %s: 3 assignments to per/total/currency (None, value or zero)' % COST_FORMS[_i], cost=60)
    _reg(make_cost(_i, 2, 14), {'C09': Q}, 900, 'cost', 'cost form %s: 2 assignments to per/total/currency/date/label/merge' % COST_FORMS[_i], cost=60)
    _reg(make_cost(_i, 4, 8), {'C09': T, 'C19': T}, 1800, 'cost', 'cost form %s: 4 assignments to per/total/currency' % COST_FORMS[_i])
    _reg(make_cost(_i, 3, 14), {'C09': T}, 3000, 'cost', 'cost form %s: 3 assignments to per/total/currency/date/label/merge' % COST_FORMS[_i])
_reg(make_payee(3), {'C09': Q}, 900, 'payee', '5 initial forms x 3 assignments to payee/narration (None, text, empty)', cost=100)
_reg(make_payee(4), {'C09': T}, 1800, 'payee', '5 initial forms x 4 assignments to payee/narration')
_reg(make_generic('Transaction', twin=True), {'C09': Q}, 120, 'generic', 'vacuity twin', twin=True, cost=1)
_reg(make_cost(2, 3, 8, twin=True), {'C09': Q, 'C19': Q}, 120, 'cost', 'vacuity twin', twin=True, cost=1)

FILES = ['autobean_refactor/models/cost_spec.py', 'autobean_refactor/models/cost.py', 'autobean_refactor/models/transaction.py',
         'autobean_refactor/models/internal/value_properties.py', 'autobean_refactor/models/meta_value_internal.py',
         'autobean_refactor/models/internal/properties.py', 'autobean_refactor/models/internal/fields.py']
ENCODES = ['autobean_refactor/models/internal/value_properties.py: required_value_property, optional_string/indented_string/decimal/date_property',
           'autobean_refactor/models/meta_value_internal.py: optional_meta_value_property, update_value, from_value',
           'autobean_refactor/models/cost_spec.py: CostSpec number_per/number_total/currency/date/label/merge setters',
           'autobean_refactor/models/transaction.py: raw_payee/raw_narration setters',
           'autobean_refactor/models/internal/properties.py: optional_node_property, required_node_property, unordered_node_property, replace_node']
STUBS = ['property ordinal and value choice are symbolic selectors enumerated exhaustively by the solver; string values contain one symbolic code '
         'point (full Unicode within the type\'s domain); re-parse of the realised printed text runs untraced']
OUTSIDE = ['values other than the listed alternatives and one-code-point texts; assignment sequences longer than 3; cost forms outside the 18 listed']


def selftest():
    return docenv.selftest()
