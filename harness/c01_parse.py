"""C01 -- parse then print reproduces the input character for character.

The text is SYMBOLIC: a minimal template with a hole of 1-2 symbolic code points (full Unicode) at a chosen place, or a
whole text of up to 3 symbolic code points; it goes through the real lexer (terminal regexes interpreted by symre),
the real LALR driver, PostLex and ModelBuilder.  Every parse target that can accept the template is used, with
auto_claim_comments symbolic.

Oracle: the text is "accepted" iff lark (lexer + LALR + builder) raises no lark exception and every DATE lexeme is in
the calendar (Date then rightly raises ValueError); for an accepted text any other exception is a violation, the printed
model must equal the text, the concatenation of the store's tokens must equal the text, and every sub-model must print
exactly the slice it spans (spans from token lengths), nested and ordered.
"""
from symx.env import NoTracing, check, Fail, NATIVE, pick, R, known_finding, print_model, set_load_factor
from symx import parseenv, lexenv, docenv
from symx.parseenv import build
from autobean_refactor import models, parser as parser_lib

M = models
P = lexenv.PARSER
MAXCP = 0x10FFFF
LF = int(__import__('os').environ.get('SYMX_C01_LF', '2'))


def date_out_of_calendar(e):
    return isinstance(e, ValueError) and ('out of range' in str(e) or 'must be in' in str(e) or 'year' in str(e) or 'month' in str(e) or 'day' in str(e))


def check_parse(s, target, acc):
    set_load_factor(LF)      # the parsed document spans many store blocks (block boundaries every 2-3 tokens)
    try:
        m = P.parse(s, target, auto_claim_comments=acc)
    except Exception as e:
        if type(e).__module__.startswith('lark'):
            return None      # rejected by the grammar
        if date_out_of_calendar(e):
            return None      # a DATE lexeme without a meaning (month 13, year 0, ...)
        raise Fail('parse() raised on a text the grammar accepts: %r' % (e,))
    out = print_model(m)                   # the real printer
    whole = ''.join(t.raw_text for t in m.token_store)
    check(whole == s, 'concatenation of the store differs from the input', R(whole), R(s))
    if out != s and outer_trivia_only(m) and known_finding('C01-single-model-target-outer-trivia'):
        pass    # recorded deviation: trivia outside the span of a single-model parse target is not printed with the model
    else:
        check(out == s, 'printed model differs from the input', R(out), R(s))
    # every sub-model prints the slice it spans; spans nested and ordered
    toks = list(m.token_store)
    with NoTracing():
        index = {id(t): i for i, t in enumerate(toks)}
    lens = [len(t.raw_text) for t in toks]
    starts = []
    pos = 0
    for n in lens:
        starts.append(pos)
        pos += n

    def span(x, path):
        if isinstance(x, M.RawTokenModel):
            with NoTracing():
                ok = id(x) in index
            check(ok, 'tree leaf is not in the store', path)
            i = index[id(x)]
            return i, i
        ft, lt = x.first_token, x.last_token
        with NoTracing():
            ok = id(ft) in index and id(lt) in index
        check(ok, 'first/last token of a sub-model is not in the store', path)
        a, b = index[id(ft)], index[id(lt)]
        check(a <= b, 'first token after last token', path)
        sub = ''.join(t.raw_text for t in x.tokens)
        check(sub == s[starts[a]:starts[b] + lens[b]], 'sub-model does not print the slice it spans', path, R(sub))
        prev = -1
        spans = []
        for name, c in docenv.children(x):
            ca, cb = span(c, path + '.' + name)
            check(a <= ca and cb <= b, 'child span outside its parent', path + '.' + name)
            spans.append((ca, cb))
        spans.sort()
        for (a1, b1), (a2, b2) in zip(spans, spans[1:]):
            check(b1 < a2, 'children overlap', path)
        return a, b

    span(m, type(m).__name__)
    # reading the document (printing it, asking sub-models for their tokens) must not have disturbed it
    again = print_model(m)
    check(again == out, 'printing the model a second time gives a different text', R(again), R(out))
    whole2 = ''.join(t.raw_text for t in m.token_store)
    check(whole2 == s, 'the store no longer concatenates to the input after the document was printed', R(whole2))
    return m


def outer_trivia_only(m):
    """The returned model is not a File and every token of the store outside its span is trivia
    (blanks, newlines, comments, zero-width marks)."""
    if isinstance(m, M.File):
        return False
    with NoTracing():
        toks = list(m.token_store)
        idx = {id(t): i for i, t in enumerate(toks)}
        a, b = idx[id(m.first_token)], idx[id(m.last_token)]
        outside = toks[:a] + toks[b + 1:]
        return bool(outside) and all((not t.raw_text) or isinstance(t, (M.Whitespace, M.Newline, M.BlockComment, M.InlineComment, M.Indent)) for t in outside)


def make_hole(tname, target_name, pos, nh, restrict=None, twin=False, restrict0=None):
    text = TEMPLATES[tname]
    pre, post = text[:pos], text[pos:]
    target = getattr(M, target_name)

    def cell(c0: int, c1: int, acc: bool) -> None:
        assert 0 <= c0 <= MAXCP and 0 <= c1 <= MAXCP
        if restrict0 is not None:       # in-token holes: the free character ranges over a small alphabet only
            ok0 = False
            for ch in restrict0:
                ok0 = ok0 | (c0 == ord(ch))
            if not ok0:
                return
        if restrict is not None:
            ok = False
            for ch in restrict:
                ok = ok | (c1 == ord(ch))
            if nh >= 2 and not ok:
                return
        s = build(pre, [c0, c1][:nh], post)
        acc = bool(pick(acc, 0, 1))
        m = check_parse(s, target, acc)
        if twin and m is not None:
            raise Fail('twin reached the assertion point')

    return 'hole_%s_%s_p%02d_n%d%s%s' % (tname, target_name, pos, nh, '_r' if restrict0 else '', '_twin' if twin else ''), cell


def make_whole(n, target_name, twin=False):
    target = getattr(M, target_name)

    def cell(c0: int, c1: int, c2: int, acc: bool) -> None:
        assert 0 <= c0 <= MAXCP and 0 <= c1 <= MAXCP and 0 <= c2 <= MAXCP
        s = build('', [c0, c1, c2][:n], '')
        acc = bool(pick(acc, 0, 1))
        m = check_parse(s, target, acc)
        if twin and m is not None:
            raise Fail('twin reached the assertion point')

    return 'whole_%s_n%d%s' % (target_name, n, '_twin' if twin else ''), cell


TEMPLATES = {
    'open': '2000-01-01 open Assets:A\n',
    'txn': '2000-01-01 *\n  Assets:A\n',
    'txn2': '2000-01-01 * "n"\n  kk: 1\n  Assets:A  1 USD\n',
    'two': 'pushtag #t\n\npoptag #t',
    'cmt': '; c\n2000-01-01 close Assets:A\n; d\n',
    'posting': '  Assets:A  1 USD\n    kk: 1',
    'crlf': 'option "a" "b"\r\n\r\n',
    'icmt': '2000-01-01 *\n  Assets:A\n  ; ic\n',
    'ign': '; c\n* h',
}
TARGETS = {'open': ['File', 'Open'], 'txn': ['File', 'Transaction'], 'txn2': ['File'], 'two': ['File'], 'cmt': ['File'], 'posting': ['Posting'],
           'crlf': ['File'], 'icmt': ['File'], 'ign': ['File', 'IgnoredLine']}


def hole_positions(text):
    """Between-token positions: line starts, before/after indents, before EOL, end of text, plus after each blank."""
    out = {0, len(text)}
    for i, ch in enumerate(text):
        if ch in '\n \r':
            out.add(i)
            out.add(i + 1)
    return sorted(out)


CELLS = {}


def _reg(name_fn, tiers, timeout, family, bounds, twin=False, cost=None):
    name, fn = name_fn
    assert name not in CELLS, 'duplicate cell name ' + name
    CELLS[name] = dict(fn=fn, tiers=tiers, timeout=timeout, family=family, bounds=bounds, twin=twin, cost=cost or timeout, path_timeout=120)


Q, T = ('quick', 'thorough'), ('thorough',)
QUICK_HOLES = {'open': [0, 10, 25], 'txn': [12, 13, 24], 'cmt': [0, 4], 'posting': [0, 19], 'crlf': [14, 15, 18], 'two': [10, 11, 12], 'icmt': [24, 26, 31], 'ign': [4]}
for _t, _text in TEMPLATES.items():
    for _target in TARGETS[_t]:
        for _pos in hole_positions(_text):
            quick = _pos in QUICK_HOLES.get(_t, []) and _target == TARGETS[_t][0]
            _reg(make_hole(_t, _target, _pos, 1), {'C01': Q if quick else T}, 900 if quick else 3000, 'hole1',
                 'template %r parsed as %s with 1 symbolic code point (full Unicode) inserted at offset %d; auto_claim_comments symbolic' % (_text, _target, _pos), cost=200)
        for _pos in hole_positions(_text)[::3]:
            _reg(make_hole(_t, _target, _pos, 2, restrict=' \t\r\n;'), {'C01': T}, 1800, 'hole2',
                 'template %r parsed as %s with 2 code points at offset %d: first free (full Unicode), second from {SP,TAB,CR,LF,;}' % (_text, _target, _pos))
IN_TOKEN = ' \t\r\n;x*#"'
for _t, _text in TEMPLATES.items():
    for _target in TARGETS[_t]:
        for _pos in range(len(_text) + 1):
            _reg(make_hole(_t, _target, _pos, 1, restrict0=IN_TOKEN), {'C01': Q if _target == TARGETS[_t][0] or _t == 'ign' else T}, 900, 'hole1r',
                 'template %r parsed as %s with 1 code point from the alphabet %r inserted at offset %d (every offset, inside tokens too)' % (_text, _target, IN_TOKEN, _pos), cost=15)
for _n in (0, 1, 2):
    for _target in ('File', 'Posting', 'MetaItem', 'NumberExpr', 'CostSpec', 'Open'):
        _reg(make_whole(_n, _target), {'C01': Q if _n <= 1 else T}, 900 if _n <= 1 else 3300, 'whole', 'every text of %d code points (full Unicode) parsed as %s' % (_n, _target), cost=20 * 40 ** _n)
_reg(make_whole(3, 'File'), {'C01': T}, 3300, 'whole', 'every text of 3 code points (full Unicode) parsed as File')
_reg(make_hole('txn', 'File', 13, 1, twin=True), {'C01': Q}, 300, 'hole1', 'vacuity twin', twin=True, cost=5)
_reg(make_whole(1, 'File', twin=True), {'C01': Q}, 300, 'whole', 'vacuity twin', twin=True, cost=5)

FILES = ['autobean_refactor/parser.py', 'autobean_refactor/beancount.lark', 'autobean_refactor/printer.py', 'autobean_refactor/models/base.py',
         'autobean_refactor/models/file.py', 'autobean_refactor/models/block_comment.py', 'autobean_refactor/token_store.py']
ENCODES = ['autobean_refactor/parser.py: Parser.parse/_parse, PostLex.process, ModelBuilder.* (all methods)', 'autobean_refactor/printer.py: print_model',
           'autobean_refactor/models/*: from_raw_text/_parse_value of every token class reached, from_parsed_children, auto_claim_comments',
           'lark: contextual lexer + LALR driver (pure Python) with re replaced by symre on the grammar\'s own terminal regexes']
STUBS = ['TokenStore load factor set to 2 (module globals): every parsed document spans many store blocks',
         'lark Scanner.match: same terminal regexes in lark\'s order, interpreted by symx.symre (validated against re at every run); PostLex split regex likewise',
         'lark ParserState.feed_token / InteractiveParser.choices run untraced (they read only concrete token types)',
         'CrossHair Decimal port with its numeral regex interpreted by symre (any template containing a number)',
         'a text is "accepted" iff no lark exception is raised and every DATE lexeme is inside the calendar']
OUTSIDE = ['templates other than the 8 minimal ones; holes of more than 2 code points; two adjacent free code points; holes in several places at once; whole texts longer than 3']


def selftest():
    return lexenv.selftest()
