"""C15 -- constructed models are well-formed and parse back to the same content.

For every model class with from_value, each argument has a list of in-domain alternatives (None / present, empty and
multi-element lists, strings needing escapes, negative numbers, nested constructed children); the solver enumerates
every combination (arguments are found by inspecting the real signature).  Oracle: the printed text parses as the
model's type, the semantic dump of the parsed result equals the dump of the constructed model, printing is stable,
and the constructed tree satisfies the structural invariant.
"""
import datetime
import decimal
import inspect

from symx.env import NoTracing, check, Fail, NATIVE, pick, R
from symx import docenv
from symx.docenv import text_of
from autobean_refactor import models

M = models
D = decimal.Decimal
DT = datetime.date

STR_TRICKY = 'q"u\\o\tt\nz'


def _cost(i):
    return [None,
            lambda: M.CostSpec.from_value(D('2'), None, 'EUR'),
            lambda: M.CostSpec.from_value(None, D('9'), 'EUR', DT(2000, 1, 2), 'lb', True),
            lambda: M.CostSpec.from_value(D('2'), D('3'), 'EUR'),
            lambda: M.CostSpec.from_value(None, None, None)][i]


def _price(i):
    return [None, lambda: M.UnitPrice.from_value(D('3'), 'GBP'), lambda: M.TotalPrice.from_value(D('4'), 'GBP'),
            lambda: M.UnitPrice.from_value(None, None), lambda: M.UnitPrice.from_value(None, 'GBP')][i]


def _postings(i):
    mk = [
        lambda: [],
        lambda: [M.Posting.from_value('Assets:A', D('1'), 'USD')],
        lambda: [M.Posting.from_value('Assets:A', D('-1.5'), 'USD', cost=_cost(1)(), price=_price(1)(), flag='!', inline_comment='pic',
                                      meta={'pk': 'v'}, leading_comment='plc', trailing_comment='ptc'),
                 M.Posting.from_value('Assets:B', None, None)],
        lambda: [M.Posting.from_value('Assets:A', None, 'USD', indent='  ', indent_by='  ', meta={'aa': D('1'), 'bb': None})],
    ]
    return mk[i]


META = [None, {}, {'kk': 'v'}, {'kk': D('1'), 'k2': None, 'k3': True, 'k4': DT(2000, 1, 2), 'k5': STR_TRICKY},
        lambda: {'ka': M.Account.from_value('Assets:M'), 'kc': M.Currency.from_value('USD'), 'kt': M.Tag.from_value('tg'),
                 'kn': M.Null.from_default(), 'km': M.Amount.from_value(D('-3'), 'USD'), 'kd': D('-7')}]
CUSTOM_VALUES = [
    lambda: 's', lambda: DT(2000, 1, 2), lambda: True, lambda: D('1'), lambda: D('-2'), lambda: D('-0.00'), lambda: M.Amount.from_value(D('3'), 'USD'),
    lambda: M.Amount.from_value(D('-4'), 'USD'), lambda: M.Account.from_value('Assets:C'), lambda: STR_TRICKY,
]

ALTS = {
    'date': [DT(2000, 1, 2), DT(999, 12, 31)],      # a year of fewer than four digits still needs four in the text
    'account': ['Assets:A'], 'source_account': ['Equity:B'],
    'currency': ['USD'],
    'currencies': [(), ('USD',), ('USD', 'EUR', 'GBP')],
    'booking': [None, 'STRICT'],
    'tolerance': [None, D('0.01'), D('0')],
    'leading_comment': [None, 'lc', 'two\nlines', 'a\n \n\nb'],
    'trailing_comment': [None, 'tc', 'x\n\t\ny'],
    'inline_comment': [None, 'ic', ''],
    'meta': META,
    'indent_by': ['    ', '\t'],
    'indent': ['    ', ' '],
    'tags': [(), ('a',), ('a', 'b-c')],
    'links': [(), ('l',)],
    'payee': [None, 'p', STR_TRICKY],
    'narration': [None, 'n', ''],
    'flag': ['*', '!'],
    'postings': [0, 1, 2, 3],
    'cost': [0, 1, 2, 3, 4],
    'price': [0, 1, 2, 3, 4],
    'type': ['t', STR_TRICKY], 'name': ['nm'], 'description': ['d', STR_TRICKY], 'key': ['kk'], 'filename': ['f.bean'], 'comment': ['c', STR_TRICKY],
    'query_string': ['SELECT 1'], 'config': [None, 'cfg', STR_TRICKY], 'label': [None, 'lb'], 'tag': ['tg'],
    'merge': [False, True],
    'number_per': [None, D('1'), D('-1'), D('0')], 'number_total': [None, D('2'), D('0')],
    'amount': [lambda: M.Amount.from_value(D('1.5'), 'EUR'), lambda: M.Amount.from_value(D('-1.5'), 'EUR')],
    'values': None,   # custom: separate cell
}
PER_CLASS = {
    ('Posting', 'flag'): [None, '!', 'P'], ('Posting', 'number'): [None, D('1'), D('-2.50'), D('0')], ('Posting', 'currency'): [None, 'USD'],
    ('Balance', 'number'): [D('1'), D('-2.50')], ('Amount', 'number'): [D('1'), D('-2.50'), D('0'), D('-0.00'), D('-123456789012.123456789012345678')], ('Tolerance', 'number'): [D('0.01')],
    ('UnitPrice', 'number'): [None, D('3')], ('TotalPrice', 'number'): [None, D('3')], ('UnitPrice', 'currency'): [None, 'GBP'], ('TotalPrice', 'currency'): [None, 'GBP'],
    ('CostSpec', 'currency'): [None, 'EUR'], ('CostSpec', 'date'): [None, DT(2000, 1, 2), DT(33, 1, 2)], ('CompoundAmount', 'currency'): ['EUR'],
    ('Option', 'value'): ['v', STR_TRICKY], ('Option', 'key'): ['title'], ('Pushmeta', 'value'): [None, 'v', D('-1'), True, DT(2000, 1, 2)],
    ('MetaItem', 'value'): [None, 'v', D('-1'), D('-0.0'), False, DT(2000, 1, 2), lambda: M.Account.from_value('Assets:M'), lambda: M.Amount.from_value(D('-3'), 'USD'),
                            lambda: M.Null.from_default(), STR_TRICKY],
    ('NumberExpr', 'value'): [D('1'), D('-2.5'), D('0'), D('1000000'), D('-0.00'), D('-0'), D('123456789012.123456789012345678'), D('-123456789012.123456789012345678')],
    ('Transaction', 'meta'): META[:4],
}
CLASSES = ['Amount', 'Balance', 'Close', 'Commodity', 'CompoundAmount', 'CostSpec', 'Document', 'Event', 'Include', 'MetaItem', 'Note', 'NumberExpr',
           'Open', 'Option', 'Pad', 'Plugin', 'Popmeta', 'Poptag', 'Posting', 'Price', 'Pushmeta', 'Pushtag', 'Query', 'Tolerance', 'TotalPrice',
           'Transaction', 'UnitPrice']


def resolve(cname, pname, v):
    if pname == 'postings':
        return _postings(v)()
    if pname == 'cost':
        f = _cost(v)
        return f() if f else None
    if pname == 'price':
        f = _price(v)
        return f() if f else None
    if callable(v):
        return v()
    return v


def make_construct(cname, fixed=None, twin=False):
    cls = getattr(M, cname)
    sig = inspect.signature(cls.from_value)
    params = [p for p in sig.parameters]
    alts = []
    for p in params:
        a = PER_CLASS.get((cname, p), ALTS.get(p))
        assert a, (cname, p)
        if fixed and p in fixed:
            a = [a[i] for i in fixed[p]]
        alts.append(a)
    npar = len(params)
    assert npar <= 14

    def cell(a0: int, a1: int, a2: int, a3: int, a4: int, a5: int, a6: int, a7: int, a8: int, a9: int, a10: int, a11: int, a12: int, a13: int) -> None:
        assert 0 <= a0 <= 8 and 0 <= a1 <= 8 and 0 <= a2 <= 8 and 0 <= a3 <= 8 and 0 <= a4 <= 8 and 0 <= a5 <= 8 and 0 <= a6 <= 8
        assert 0 <= a7 <= 8 and 0 <= a8 <= 8 and 0 <= a9 <= 8 and 0 <= a10 <= 8 and 0 <= a11 <= 8 and 0 <= a12 <= 8 and 0 <= a13 <= 8
        sel = [pick(x, 0, len(alts[i]) - 1) if len(alts[i]) > 1 else 0 for i, x in enumerate((a0, a1, a2, a3, a4, a5, a6, a7, a8, a9, a10, a11, a12, a13)[:npar])]
        with NoTracing():
            kwargs = {p: resolve(cname, p, alts[i][sel[i]]) for i, p in enumerate(params)}
            shown = {p: alts[i][sel[i]] for i, p in enumerate(params)}
            try:
                m = cls.from_value(**kwargs)
            except ValueError as e:
                # the only documented refusal: both cost numbers without a currency
                if cname == 'CostSpec' and kwargs['number_per'] is not None and kwargs['number_total'] is not None and kwargs['currency'] is None:
                    return
                raise Fail('%s.from_value(%r) refused in-domain arguments: %r' % (cname, shown, e))
            if twin:
                raise Fail('twin reached the assertion point')
            verify(m, cls, '%s.from_value(%r)' % (cname, shown), kwargs)

    return 'construct_%s%s%s' % (cname, ('_' + '_'.join('%s%s' % (k, ''.join(map(str, v))) for k, v in sorted(fixed.items()))) if fixed else '', '_twin' if twin else ''), cell


def verify(m, cls, what, kwargs=None):
    text = text_of(m)
    docenv.tree_invariant(m, what=what + ' constructed tree')
    for t in m.token_store:     # every constructed token: value and raw text describe each other
        if hasattr(type(t), '_parse_value'):
            mean = (t.indent, t.value) if isinstance(t, M.BlockComment) else t.value
            check(type(t)._parse_value(t.raw_text) == mean, what, 'constructed token whose value and raw text disagree', docenv.R_(t), R(mean))
    for name, arg in (kwargs or {}).items():   # the model says what it was constructed from
        d = None
        for k in cls.__mro__:
            if name in vars(k):
                d = vars(k)[name]
                break
        if d is None or name in ('indent_by', 'postings', 'cost', 'price', 'amount'):
            continue
        got = getattr(m, name)
        if name == 'meta':
            exp = [(k2, (text_of(v2) if isinstance(v2, M.RawModel) else v2)) for k2, v2 in (arg or {}).items()]
            gotl = [(k2, (text_of(v2) if isinstance(v2, M.RawModel) else v2)) for k2, v2 in got.items()]
            check(gotl == exp, what, 'meta reads', R(gotl), 'but was constructed from', R(exp))
        elif name in ('tags', 'links', 'currencies'):
            check(list(got) == list(arg), what, name, 'reads', R(list(got)), 'but was constructed from', R(list(arg)))
        elif name == 'value' and isinstance(arg, M.RawModel):
            check(text_of(got) == text_of(arg), what, 'value reads', R(text_of(got)))
        elif isinstance(arg, (str, bool, int, D, DT, type(None))):
            exp = arg
            if cls is M.Transaction and name == 'narration' and arg is None and kwargs.get('payee') is not None:
                exp = ''       # documented: payee implies narration
            if cls is M.CostSpec and name == 'merge':
                exp = bool(arg)
            check(got == exp and (got is None) == (exp is None), what, name, 'reads', R(got), 'but was constructed from', R(exp))
    st = m.token_store
    check(m.first_token is st.get_first() and m.last_token is st.get_last(), what, 'constructed model is not the whole of its store')
    try:
        p = docenv.PARSER.parse(text, cls)
    except Exception as e:
        raise Fail('%s prints %r which does not parse as %s: %r' % (what, text, cls.__name__, e))
    check(text_of(p) == text, what, 'printing is not stable', R(text))
    a, b = docenv.semdump(m), docenv.semdump(p)
    check(a == b, what, 'prints', R(text), 'whose parse differs from the constructed model:\n constructed', a, '\n parsed     ', b)
    check(docenv.comments_of(st) == docenv.comments_of(p.token_store), what, 'block comments differ after parsing', R(text))
    return p


NUMS = [1, 7, 2000, 12, 31, 12345, 2024]
CONTEXTS = ['alone', 'meta', 'custom', 'balance', 'cost', 'posting']


def make_children_expr(kind, twin=False):
    """Number expressions assembled with NumberMulExpr/NumberAddExpr/NumberExpr.from_children (1..3 operands, symbolic
    operand values and operators), placed alone / as a meta value / custom value / balance number / cost number /
    posting number: the printed context must parse back to the same dump and the same value."""
    ops_all = ['+', '-'] if kind == 'add' else ['*', '/']
    nn = len(NUMS)

    def cell(n: int, a: int, b: int, c: int, o0: int, o1: int, ctx: int) -> None:
        assert 1 <= n <= 3 and 0 <= a < nn and 0 <= b < nn and 0 <= c < nn and 0 <= o0 <= 1 and 0 <= o1 <= 1 and 0 <= ctx < len(CONTEXTS)
        n = pick(n, 1, 3)
        nums = [NUMS[pick(x, 0, nn - 1)] for x in (a, b, c)[:n]]
        ops = [ops_all[pick(o, 0, 1)] for o in (o0, o1)[:n - 1]]
        ctx = CONTEXTS[pick(ctx, 0, len(CONTEXTS) - 1)]
        with NoTracing():
            def mul(ns, os_):
                return M.NumberMulExpr.from_children(tuple(M.Number.from_value(D(x)) for x in ns), tuple(M.MulOp.from_raw_text(o) for o in os_))
            if kind == 'mul':
                add = M.NumberAddExpr.from_children((mul(nums, ops),), ())
            else:
                add = M.NumberAddExpr.from_children(tuple(mul([x], []) for x in nums), tuple(M.AddOp.from_raw_text(o) for o in ops))
            expr = M.NumberExpr.from_children(add)
            expected = expr.value
            what = 'from_children %s %s %s as %s' % (kind, nums, ops, ctx)
            if twin:
                raise Fail('twin reached the assertion point')
            if ctx == 'alone':
                p = verify(expr, M.NumberExpr, what)
                got = p.value
            elif ctx == 'meta':
                m = M.Close.from_value(DT(2020, 2, 3), 'Assets:Foo', meta={'key': expr})
                p = verify(m, M.Close, what)
                got = p.meta['key']
            elif ctx == 'custom':
                m = M.Custom.from_value(DT(2020, 2, 3), 'budget', ['x', expr])
                p = verify(m, M.Custom, what)
                vs = list(p.values)
                got = vs[1] if len(vs) == 2 else vs
            elif ctx == 'balance':
                m = M.Balance.from_children(M.Date.from_value(DT(2020, 2, 3)), M.Account.from_value('Assets:Foo'), expr, None, M.Currency.from_value('USD'))
                p = verify(m, M.Balance, what)
                got = p.number
            elif ctx == 'cost':
                m = M.CostSpec.from_value(D('1'), None, 'USD')
                m.raw_cost.raw_components[0].raw_number = expr
                m = M.Posting.from_value('Assets:A', D('1'), 'EUR', cost=m)
                p = verify(m, M.Posting, what)
                got = p.cost.number_per
            else:
                m = M.Posting.from_value('Assets:A', D('1'), 'EUR')
                m.raw_number = expr
                p = verify(m, M.Posting, what)
                got = p.number
            check(isinstance(got, D) and got == expected, what, 'parses back to', R(got), 'instead of', R(expected))

    return 'children_%s%s' % (kind, '_twin' if twin else ''), cell


def make_custom(n, twin=False):
    nk = len(CUSTOM_VALUES)

    def cell(v0: int, v1: int, v2: int, mi: int, ic: bool) -> None:
        assert 0 <= v0 < nk and 0 <= v1 < nk and 0 <= v2 < nk and 0 <= mi < 4
        sel = [pick(v, 0, nk - 1) for v in (v0, v1, v2)[:n]]
        mi = pick(mi, 0, 3)
        ic = bool(pick(ic, 0, 1))
        with NoTracing():
            vals = [CUSTOM_VALUES[s]() for s in sel]
            shown = [repr(v) if not isinstance(v, M.RawModel) else text_of(v) for v in vals]
            m = M.Custom.from_value(DT(2000, 1, 2), 't', vals, meta=resolve('Custom', 'meta', META[mi]), inline_comment='ic' if ic else None)
            if twin:
                raise Fail('twin reached the assertion point')
            what = 'Custom.from_value(values=%s)' % shown
            p = verify(m, M.Custom, what)
            # values read back (disambiguation of consecutive numbers must not change them)
            got = [text_of(x) if isinstance(x, M.RawModel) else x for x in p.values]
            exp = [text_of(x) if isinstance(x, M.RawModel) else x for x in M.Custom.from_value(DT(2000, 1, 2), 't', [CUSTOM_VALUES[s]() for s in sel]).values]
            check(len(got) == n, what, 'parses back with', len(got), 'values', R(text_of(m)))
            for g, s in zip(p.values, sel):
                e = CUSTOM_VALUES[s]()
                if isinstance(e, M.RawModel):
                    check(isinstance(g, type(e)) and docenv.semdump(g) == docenv.semdump(e) or (isinstance(e, M.Amount) and g.number == e.number and g.currency == e.currency),
                          what, 'value parses back as', R(text_of(g) if isinstance(g, M.RawModel) else g))
                else:
                    check(g == e and type(g) is type(e), what, 'value parses back as', R(g), 'instead of', R(e), R(text_of(m)))

    return 'custom_%d%s' % (n, '_twin' if twin else ''), cell


def make_file(twin=False):
    """A file assembled from constructed directives (symbolic choice of 3 directives out of 8 constructed kinds)."""
    mk = [
        lambda: M.Open.from_value(DT(2000, 1, 1), 'Assets:A', ('USD',), 'STRICT', meta={'kk': 'v'}),
        lambda: M.Close.from_value(DT(2000, 1, 2), 'Assets:A', leading_comment='lc', trailing_comment='tc'),
        lambda: M.Transaction.from_value(DT(2000, 1, 3), 'p', 'n', _postings(2)(), tags=('t',), links=('l',), meta={'mk': D('1')}),
        lambda: M.Option.from_value('title', 'x', inline_comment='ic'),
        lambda: M.Balance.from_value(DT(2000, 1, 4), 'Assets:A', D('-1'), D('0.1'), 'USD'),
        lambda: M.BlockComment.from_value('standalone'),
        lambda: M.Custom.from_value(DT(2000, 1, 5), 't', [D('1'), D('-2'), M.Amount.from_value(D('-3'), 'USD')]),
        lambda: M.Transaction.from_value(DT(2000, 1, 6), None, None, []),
    ]

    def cell(d0: int, d1: int, d2: int) -> None:
        assert 0 <= d0 < 8 and 0 <= d1 < 8 and 0 <= d2 < 8
        sel = [pick(d, 0, 7) for d in (d0, d1, d2)]
        with NoTracing():
            ds = [mk[s]() for s in sel]
            try:
                f = M.File.from_value(ds) if all(not isinstance(x, M.BlockComment) for x in ds) else M.File.from_children(ds)
            except TypeError:
                f = M.File.from_children(ds)
            if twin:
                raise Fail('twin reached the assertion point')
            verify(f, M.File, 'File of constructed directives %r' % sel)

    return 'file%s' % ('_twin' if twin else ''), cell


CELLS = {}


def _reg(name_fn, tiers, timeout, family, bounds, twin=False, cost=None):
    name, fn = name_fn
    assert name not in CELLS, 'duplicate cell name ' + name
    CELLS[name] = dict(fn=fn, tiers=tiers, timeout=timeout, family=family, bounds=bounds, twin=twin, cost=cost or timeout)


Q, T = ('quick', 'thorough'), ('thorough',)
for _c in CLASSES:
    if _c in ('Transaction', 'Posting'):
        continue
    _reg(make_construct(_c), {'C15': Q}, 1200, 'construct', '%s.from_value: every combination of the listed alternatives per argument (None/present, empty/multi lists, escapes, negative numbers)' % _c, cost=100)
# the two big ones are split on their heaviest arguments
for _cost_i in range(5):
    for _price_i in range(5):
        quick = (_cost_i, _price_i) in ((0, 0), (1, 1), (2, 2), (3, 3), (4, 4))
        _reg(make_construct('Posting', fixed={'cost': [_cost_i], 'price': [_price_i], 'indent_by': [0]}), {'C15': Q if quick else T}, 1800, 'construct',
             'Posting.from_value with cost #%d, price #%d: every combination of the other arguments' % (_cost_i, _price_i), cost=400)
for _p in range(4):
    for _m in range(4):
        quick = (_p + _m) % 2 == 0
        _reg(make_construct('Transaction', fixed={'postings': [_p], 'meta': [_m], 'indent_by': [0], 'trailing_comment': [0, 1, 2][:1 + (_m % 2) * 2], 'leading_comment': [0, 1, 3]}),
             {'C15': Q if quick else T}, 1800, 'construct', 'Transaction.from_value with postings #%d, meta #%d: every combination of the other arguments' % (_p, _m), cost=400)
for _n in (0, 1, 2, 3):
    _reg(make_custom(_n), {'C15': Q if _n <= 2 else T}, 1800, 'custom', 'Custom.from_value with %d values of symbolic kinds (9 kinds incl. negative numbers and amounts) x 4 meta x inline comment' % _n, cost=9 ** _n)
for _k in ('add', 'mul'):
    _reg(make_children_expr(_k), {'C15': Q}, 1200, 'children', 'NumberExpr assembled with from_children (%s chain of 1..3 operands from %r, symbolic operators) x 6 contexts' % (_k, NUMS), cost=300)
_reg(make_children_expr('add', twin=True), {'C15': Q}, 120, 'children', 'vacuity twin', twin=True, cost=1)
_reg(make_file(), {'C15': Q}, 1200, 'file', 'File assembled from 3 constructed directives (8 kinds each)', cost=200)
_reg(make_construct('Open', twin=True), {'C15': Q}, 120, 'construct', 'vacuity twin', twin=True, cost=1)
_reg(make_custom(2, twin=True), {'C15': Q}, 120, 'custom', 'vacuity twin', twin=True, cost=1)

FILES = ['autobean_refactor/models/custom.py', 'autobean_refactor/models/transaction.py', 'autobean_refactor/models/cost_spec.py',
         'autobean_refactor/models/internal/repeated.py', 'autobean_refactor/models/internal/fields.py', 'autobean_refactor/models/meta_item_internal.py',
         'autobean_refactor/models/meta_value_internal.py', 'autobean_refactor/models/number_expr.py']
ENCODES = ['autobean_refactor/models/generated/*.py: from_value / from_children of every class listed', 'autobean_refactor/models/custom.py: _disambiguate_values, _unsimplify_value',
           'autobean_refactor/models/transaction.py: from_value/from_children', 'autobean_refactor/models/cost_spec.py: from_value',
           'autobean_refactor/models/internal/repeated.py: Repeated.from_children', 'autobean_refactor/models/internal/fields.py: detach_with_separators']
STUBS = ['argument alternatives are symbolic selectors enumerated exhaustively by the solver; construction, printing and re-parsing run natively']
OUTSIDE = ['argument values other than the listed alternatives; custom value sequences longer than 3; files of more than 3 constructed directives']


def selftest():
    return docenv.selftest()
