"""Operations on repeated fields (raw MutableSequence API) of parsed documents, against a plain Python list.

One cell = one scaffold (a repeated field with n items inside a 3-directive file) x one operation kind, with SYMBOLIC
index / slice bounds over a box, symbolic donor count and donor kinds.  The same cells serve several properties through
the `facet` argument, which selects the oracle:

  views   (C10)  raw list == reference list; every filtered / converted view == reference filtered; same return
                 value; same exception class as `list`
  window  (C03)  token-identity window inside the parent; removed/inserted tokens are the child or separators;
                 characters outside the parent unchanged
  tree    (C05)  structural invariant of the whole tree (and of a popped node) after the operation
  reparse (C06)  print -> parse gives the same directives/fields/values as the edited model
  refuse  (C19)  a refused call (out-of-range index, size mismatch, attached donor) leaves text, token identities
                 and tree exactly as before
"""
from symx.env import NoTracing, realize, check, Fail, NATIVE, pick, R, set_load_factor
from symx import docenv
from symx.docenv import parse, text_of, Snapshot, embed
from autobean_refactor import models

M = models


def _posting(acc):
    return lambda: parse('    Assets:%s  9 USD' % acc, M.Posting)


def _meta(key):
    return lambda: parse('    %s: "v"' % key, M.MetaItem)


def _pmeta(key):
    return lambda: parse('        %s: "v"' % key, M.MetaItem)


def _dir(text):
    return lambda: parse(text, getattr(M, text.split()[1].capitalize()) if text[0].isdigit() else M.Option)


class Scaffold:
    def __init__(self, name, make_text, get_parent, raw_attr, donors, views, items_max):
        self.name = name
        self.make_text = make_text      # n -> file text with n items in the field
        self.get_parent = get_parent    # file -> parent model
        self.raw_attr = raw_attr
        self.donors = donors            # list of zero-arg constructors of fresh detached nodes
        self.views = views              # list of (attr on parent, predicate on raw item, converter)
        self.items_max = items_max


def _val(x):
    return x.value


def _ident(x):
    return x


_TL = ['#a', '^b', '#c', '^d']
_CUR = ['USD', 'EUR', 'GBP', 'CHF']
_POST = ['    Assets:A  1 USD', '    ; c1', '    Assets:B  2 USD', '    Assets:C  3 USD']
_META = ['    ka: 1', '    ; mc', '    kb: "x"', '    kc: TRUE']
_CUSTOM = ['"s"', 'TRUE', '2000-01-02', 'Assets:A']
_DIRS = ['2000-02-01 open Assets:A', '; standalone', '2000-02-02 close Assets:A', 'option "a" "b"']
_COST = ['2 EUR', '2000-01-02', '"lb"', '*']

SCAFFOLDS = {}


def _add(s):
    SCAFFOLDS[s.name] = s


_add(Scaffold(
    'note_tags', lambda n: embed('2000-01-01 note Assets:A "n"' + ''.join(' ' + x for x in _TL[:n]) + ' ; ic\n  kk: 1'),
    lambda f: f.raw_directives[1], 'raw_tags_links',
    [lambda: M.Tag.from_value('x1'), lambda: M.Link.from_value('y2')],
    [('tags', lambda x: isinstance(x, M.Tag), _val), ('links', lambda x: isinstance(x, M.Link), _val)], 4))
_add(Scaffold(
    'txn_tags', lambda n: embed('2000-01-01 * "p" "n"' + ''.join(' ' + x for x in _TL[:n]) + '\n  Assets:A  1 USD\n  Assets:B'),
    lambda f: f.raw_directives[1], 'raw_tags_links',
    [lambda: M.Tag.from_value('x1'), lambda: M.Link.from_value('y2')],
    [('tags', lambda x: isinstance(x, M.Tag), _val), ('links', lambda x: isinstance(x, M.Link), _val)], 4))
_add(Scaffold(
    'open_cur', lambda n: embed('2000-01-01 open Assets:A' + (' ' + ', '.join(_CUR[:n]) if n else '') + ' "STRICT"'),
    lambda f: f.raw_directives[1], 'raw_currencies',
    [lambda: M.Currency.from_value('AAA'), lambda: M.Currency.from_value('BBB')],
    [('currencies', lambda x: True, _val)], 4))
_add(Scaffold(
    'txn_postings', lambda n: embed('2000-01-01 * "n"\n    kk: 1' + ''.join('\n' + x for x in _POST[:n])),
    lambda f: f.raw_directives[1], 'raw_postings_with_comments',
    [_posting('N'), lambda: M.BlockComment.from_value('dc', indent='    ')],
    [('raw_postings', lambda x: isinstance(x, M.Posting), _ident), ('postings', lambda x: isinstance(x, M.Posting), _ident)], 4))
_add(Scaffold(
    'txn_meta', lambda n: embed('2000-01-01 * "n"' + ''.join('\n' + x for x in _META[:n]) + '\n    Assets:A  1 USD'),
    lambda f: f.raw_directives[1], 'raw_meta_with_comments',
    [_meta('nk'), lambda: M.BlockComment.from_value('dc', indent='    ')],
    [('raw_meta', lambda x: isinstance(x, M.MetaItem), _ident), ('meta', lambda x: isinstance(x, M.MetaItem), _ident)], 4))
_add(Scaffold(
    'posting_meta', lambda n: embed('2000-01-01 * "n"\n    Assets:A  1 USD' + ''.join('\n    ' + x for x in _META[:n]) + '\n    Assets:B'),
    lambda f: f.raw_directives[1].raw_postings[0], 'raw_meta_with_comments',
    [_pmeta('nk'), lambda: M.BlockComment.from_value('dc', indent='        ')],
    [('raw_meta', lambda x: isinstance(x, M.MetaItem), _ident), ('meta', lambda x: isinstance(x, M.MetaItem), _ident)], 4))
_add(Scaffold(
    'custom_values', lambda n: embed('2000-01-01 custom "t"' + ''.join(' ' + x for x in _CUSTOM[:n])),
    lambda f: f.raw_directives[1], 'raw_values',
    [lambda: M.EscapedString.from_value('dv'), lambda: M.Bool.from_value(False)],
    [], 4))
_add(Scaffold(
    'file_dirs', lambda n: '2000-01-01 open Assets:Z\n' + ''.join(x + '\n\n' for x in _DIRS[:n]) + '2000-12-31 close Assets:Z\n',
    lambda f: f, 'raw_directives_with_comments',
    [lambda: parse('2000-05-05 close Assets:Q', M.Close), lambda: M.BlockComment.from_value('dc')],
    [('raw_directives', lambda x: not isinstance(x, M.BlockComment), _ident)], 4))
_add(Scaffold(
    'cost_comps', lambda n: embed('2000-01-01 * "n"\n    Assets:A  1 USD {' + ', '.join(_COST[:n]) + '} @ 3 GBP\n    Assets:B'),
    lambda f: f.raw_directives[1].raw_postings[0].raw_cost.raw_cost, 'raw_components',
    [lambda: M.EscapedString.from_value('dv'), lambda: M.Date.from_raw_text('2001-02-03')],
    [], 4))

FILE_OFFSET = {'file_dirs': 1}   # file_dirs has one fixed directive before and after the n variable ones

OPS = ['insert', 'append', 'pop', 'pop_last', 'setitem', 'delitem', 'setslice', 'delslice', 'extend', 'clear', 'setslice_ext', 'delslice_ext']


def apply_list(op, lst, i, j, donors, step):
    """Reference semantics on a plain list; returns (new list, return value)."""
    lst = list(lst)
    ret = None
    if op == 'insert':
        lst.insert(i, donors[0])
    elif op == 'append':
        lst.append(donors[0])
    elif op == 'pop':
        ret = lst.pop(i)
    elif op == 'pop_last':
        ret = lst.pop()
    elif op == 'setitem':
        lst[i] = donors[0]
    elif op == 'delitem':
        del lst[i]
    elif op == 'setslice':
        lst[i:j] = donors
    elif op == 'delslice':
        del lst[i:j]
    elif op == 'extend':
        lst.extend(donors)
    elif op == 'clear':
        lst.clear()
    elif op == 'drop_many':       # drop the items at two (possibly equal, possibly negative) indexes, as `del` would: all-or-nothing
        n = len(lst)
        for x in (i, j):
            if not -n <= x < n:
                raise IndexError('drop_many index out of range')
        gone = {i % n, j % n}
        lst = [v for k, v in enumerate(lst) if k not in gone]
    elif op == 'setslice_ext':
        lst[i:j:step] = donors
    elif op == 'delslice_ext':
        del lst[i:j:step]
    else:
        raise AssertionError(op)
    return lst, ret


def apply_real(op, w, i, j, donors, step):
    if op == 'insert':
        return w.insert(i, donors[0])
    if op == 'append':
        return w.append(donors[0])
    if op == 'pop':
        return w.pop(i)
    if op == 'pop_last':
        return w.pop()
    if op == 'setitem':
        w[i] = donors[0]
        return None
    if op == 'delitem':
        del w[i]
        return None
    if op == 'setslice':
        w[i:j] = donors
        return None
    if op == 'delslice':
        del w[i:j]
        return None
    if op == 'extend':
        return w.extend(donors)
    if op == 'clear':
        return w.clear()
    if op == 'drop_many':
        w.drop_many([i, j])
        return None
    if op == 'setslice_ext':
        w[i:j:step] = donors
        return None
    if op == 'delslice_ext':
        del w[i:j:step]
        return None
    raise AssertionError(op)


USES_I = ('insert', 'pop', 'setitem', 'delitem', 'setslice', 'delslice', 'setslice_ext', 'delslice_ext', 'drop_many')
USES_J = ('setslice', 'delslice', 'setslice_ext', 'delslice_ext', 'drop_many')
NEEDS_DONORS = {'insert': 1, 'append': 1, 'setitem': 1}
REFUSALS = (IndexError, ValueError)


ATTACHED_KINDS = ['mid', 'head_tok', 'tail_tok', 'head_tree', 'tail_tree', 'deleted']


def attached_donor(kind, other, scaf_name):
    """A node that still lives in another document: (root of that document, node).
    mid: inside a file; head_*/tail_*: first/last node of a stand-alone parsed model, so that the node touches one
    end of its token store (a guard that only looks at one end lets these through)."""
    if kind == 'mid':
        f2 = docenv.PARSER.parse('2000-03-01 open Assets:S\n2000-03-02 note Assets:S "n" #mm\n2000-03-03 close Assets:S\n', M.File)
        return f2, (f2.raw_directives[1].raw_date if scaf_name in ('custom_values', 'cost_comps') else f2.raw_directives[1])
    if kind == 'head_tok':
        o = docenv.PARSER.parse('2000-03-01 open Assets:S', M.Open)
        return o, o.raw_date
    if kind == 'tail_tok':
        o = docenv.PARSER.parse('2000-03-02 note Assets:S "n" #zz', M.Note)
        return o, o.raw_tags_links[-1]
    if kind == 'head_tree':
        o = docenv.PARSER.parse('1+2 USD', M.Amount)
        return o, o.raw_number
    if kind == 'tail_tree':
        o = docenv.PARSER.parse('  Assets:S  1 USD\n    kk: 1\n    zz: 2', M.Posting)
        return o, o.raw_meta[-1]
    raise AssertionError(kind)


def tree_dump(m):
    """Identity-level dump of the tree: slot paths with the id of each leaf token / type of each node."""
    return [(p, type(x).__name__, id(x) if isinstance(x, M.RawTokenModel) else None) for p, x in docenv.walk(m)]


def make_rep(scaf_name, n, op, facet, step=None, attached=False, twin=False, pre=None, lf=None):
    sc = SCAFFOLDS[scaf_name]
    off = FILE_OFFSET.get(scaf_name, 0)
    n_tot = n + 2 * off
    text = sc.make_text(n)
    nd = len(sc.donors)
    fixed_k = NEEDS_DONORS.get(op)
    max_k = fixed_k if fixed_k is not None else (3 if op in ('setslice', 'extend', 'setslice_ext') else 0)
    if lf is not None and fixed_k is None:
        max_k = min(max_k, 1)

    blo, bhi = docenv.block_bounds(lf) if lf else (0, 0)

    def cell(i: int, j: int, k: int, d0: int, d1: int, d2: int, bad: int, pi: int = 0, pd: int = 0, bp: int = 0, bs: int = 0) -> None:
        assert (-n_tot - 3 <= i <= n_tot + 3 and -n_tot - 3 <= j <= n_tot + 3) if lf is None else (0 <= i <= n_tot and i <= j <= n_tot)
        assert (bp == 0 and bs == 0) if lf is None else (0 <= bp < len(docenv.BLOCK_PATTERNS) and 0 <= bs <= bhi - blo)
        assert (-n_tot - 3 <= pi <= n_tot + 3 and 0 <= pd < nd) if pre is not None else (pi == 0 and pd == 0)
        assert (k == fixed_k) if fixed_k is not None else (0 <= k <= max_k)
        assert 0 <= d0 < nd and 0 <= d1 < nd and 0 <= d2 < nd
        assert (0 <= bad < max(k, 1)) if attached else bad == -1
        with NoTracing():
            set_load_factor(3 if n >= 2 else 1000)   # n >= 2: the ~60-token document spans ~20 store blocks, edits cross block boundaries
            f = docenv.PARSER.parse(text, M.File)
        if lf is not None:    # block-layout cells: the store is re-partitioned into a symbolically chosen legal layout
            bp, bs = pick(bp, 0, len(docenv.BLOCK_PATTERNS) - 1), pick(bs, 0, bhi - blo)
            i, j = pick(i, 0, n_tot), pick(j, 0, n_tot)
            with NoTracing():
                docenv.reblock(f.token_store, lf, bp, bs)
        with NoTracing():
            docenv.warm(f)        # every attribute and view of every model was read once before the edit
            parent = sc.get_parent(f)
            raw = getattr(parent, sc.raw_attr)
            views = [(name, getattr(parent, name), pred, conv) for name, pred, conv in sc.views]
            for _, v, _, _ in views:
                list(v)             # every view is materialised before the mutation
            store = f.token_store
            other = f.raw_directives[-1]      # a node attached elsewhere (for refusal cells)
        if pre is not None:   # a preceding operation through the same raw list (history of length 2)
            pi = pick(pi, -n_tot - 3, n_tot + 3)
            pd = pick(pd, 0, nd - 1)
            with NoTracing():
                try:
                    apply_real(pre, raw, pi, pi + 2 if pre == 'delslice' else (pi if pre == 'setslice' else None),
                               [sc.donors[pd]()] + ([sc.donors[1 - pd]()] if pre in ('setslice', 'extend') else []), None)   # multi-value insertions: two donors
                except REFUSALS:
                    return
                docenv.tree_invariant(f, what='tree after the first operation (%s at %s)' % (pre, pi))
        victim = None
        if attached == 'deleted':     # a tree node removed with `del` (not pop) keeps pointing at this document: it must be refused as a donor
            with NoTracing():
                pos = next((x for x, it in enumerate(raw) if isinstance(it, M.RawTreeModel)), None)
                if pos is None:
                    return
                victim = raw[pos]
                del raw[pos]
                docenv.tree_invariant(f, what='tree after del raw[%d]' % pos)
        with NoTracing():
            ref = list(raw)
        k = pick(k, 0, max(max_k, 1))
        kinds = [pick(d, 0, nd - 1) for d in (d0, d1, d2)[:k]]   # only the donors that exist are case-split
        bad_ = pick(bad, 0, max(k, 1) - 1) if attached else -1
        with NoTracing():
            donors = [sc.donors[x]() for x in kinds]
            src = None
            if attached == 'deleted' and k:
                src, donors[bad_] = f, victim
                src_before = Snapshot(src.token_store)
                src_dump = tree_dump(src)
            elif attached and k:
                src, donors[bad_] = attached_donor(attached, other, scaf_name)
                src_before = Snapshot(src.token_store)
                src_dump = tree_dump(src)
            before = Snapshot(store)
            dump_before = tree_dump(f)
            parent_first, parent_last = parent.first_token, parent.last_token
            item_tokens = {id(it): list(it.tokens) for it in ref}
            item_text = {id(it): text_of(it) for it in ref}
            donor_tokens = [t for d in donors for t in (d.tokens if d.token_store is not store else [])]
        if op in USES_J:   # slice bounds reach range(n)[slice] (C level) where CrossHair realises them: case-split first
            i = pick(i, -n_tot - 3, n_tot + 3)
            j = pick(j, -n_tot - 3, n_tot + 3)
        # slices: the extreme box value stands for None
        si = None if (op.endswith('slice') or op.endswith('_ext')) and i == -n_tot - 3 else i
        sj = None if (op.endswith('slice') or op.endswith('_ext')) and j == -n_tot - 3 else j
        got_exc = None
        ret = None
        try:
            if lf is not None:      # every argument is concrete here: native speed
                with NoTracing():
                    ret = apply_real(op, raw, si, sj, donors, step)
            else:
                ret = apply_real(op, raw, si, sj, donors, step)
        except REFUSALS as e:
            got_exc = type(e)
        i = pick(i, -n_tot - 3, n_tot + 3) if op in USES_I else 0
        j = pick(j, -n_tot - 3, n_tot + 3) if op in USES_J else 0
        si = None if (op.endswith('slice') or op.endswith('_ext')) and i == -n_tot - 3 else i
        sj = None if (op.endswith('slice') or op.endswith('_ext')) and j == -n_tot - 3 else j
        exp_exc = None
        ref2, exp_ret = ref, None
        try:
            ref2, exp_ret = apply_list(op, ref, si, sj, donors, step)
        except REFUSALS as e:
            exp_exc = type(e)
        if attached and k:
            exp_exc = ValueError        # re-inserting a node that lives elsewhere must always be refused
        if twin:
            if got_exc is None:
                raise Fail('twin reached the assertion point')
            return
        with NoTracing():
            if facet == 'refuse':
                if exp_exc is None and got_exc is None:
                    return
                check(got_exc is not None, 'refuse: an invalid call was accepted', op, (si, sj, step), 'donors', k, 'expected', exp_exc)
                after = Snapshot(store)
                check(after.text() == before.text(), 'refuse: text changed by a refused call', op, (si, sj, step), R(before.text()), R(after.text()))
                check(len(after.tokens) == len(before.tokens) and all(x is y for x, y in zip(after.tokens, before.tokens)),
                      'refuse: token identities changed by a refused call', op, (si, sj, step))
                check(tree_dump(f) == dump_before, 'refuse: tree changed by a refused call', op, (si, sj, step))
                docenv.tree_invariant(f, what='refuse')
                if src is not None:
                    src_after = Snapshot(src.token_store)
                    check(src_after.text() == src_before.text() and len(src_after.tokens) == len(src_before.tokens)
                          and all(x is y for x, y in zip(src_after.tokens, src_before.tokens)),
                          'refuse: the document the attached node lives in was changed by the refused call', R(src_after.text()))
                    check(tree_dump(src) == src_dump, 'refuse: the tree the attached node lives in was changed by the refused call')
                    docenv.tree_invariant(src, what='refuse: source of the attached node')
                for d in donors[:k]:
                    if src is None or d.token_store is not src.token_store:
                        st = d.token_store if isinstance(d, M.RawTreeModel) else None
                        check(st is None or (len(list(st)) > 0 and d.first_token is st.get_first() and d.last_token is st.get_last()),
                              'refuse: a free donor of the refused batch was consumed')
                return
            if exp_exc is not None or got_exc is not None:
                if facet == 'views':
                    check(got_exc is exp_exc, 'views: exception differs from list semantics', op, (si, sj, step), 'list:', exp_exc, 'wrapper:', got_exc)
                return
            if facet == 'views':
                check([id(x) for x in raw] == [id(x) for x in ref2], 'views: raw list differs from the reference list', op, (si, sj, step),
                      [type(x).__name__ for x in raw], [type(x).__name__ for x in ref2])
                check(len(raw) == len(ref2), 'views: len')
                if op in ('pop', 'pop_last'):
                    check(ret is exp_ret, 'views: pop returned a different element')
                for name, v, pred, conv in views:
                    got = list(v)
                    exp = [conv(x) for x in ref2 if pred(x)]
                    same = len(got) == len(exp) and all((a is b) if conv is _ident else (a == b) for a, b in zip(got, exp))
                    check(same, 'views: view', name, 'differs from the filtered reference after', op, (si, sj, step), R(got), R(exp))
                    check(len(v) == len(exp), 'views: len of view', name)
            elif facet == 'window':
                after = Snapshot(store)
                gone = [it for it in ref if not any(it is x for x in ref2)]
                old_tokens = [t for it in gone for t in item_tokens[id(it)]]
                docenv.check_window(before, after, parent_first, parent_last, old_tokens, donor_tokens,
                                    what='window %s %s' % (op, (si, sj, step)))
                bt, at = before.text(), after.text()
                a0 = sum(len(x) for x in before.texts[:before.index[id(parent_first)]])
                b0 = sum(len(x) for x in before.texts[before.index[id(parent_last)] + 1:])
                check(at[:a0] == bt[:a0], 'window: characters before the parent changed', op)
                check(b0 == 0 or at[-b0:] == bt[-b0:], 'window: characters after the parent changed', op)
                for it in ref2:   # surviving siblings print exactly what they printed
                    if any(it is x for x in ref):
                        check(text_of(it) == item_text[id(it)], 'window: a sibling changed its text', op, (si, sj, step))
                for d in donors[:k]:
                    if any(d is x for x in ref2):
                        check(len(d.tokens) > 0 and all(t.token_store is store for t in d.tokens), 'window: inserted child not in the document')
            elif facet == 'tree':
                docenv.tree_invariant(f, what='tree after %s %s' % (op, (si, sj, step)))
                if op in ('pop', 'pop_last') and ret is not None:
                    st = ret.token_store
                    check(st is not None and st is not store, 'tree: popped node still bound to the document store')
                    docenv.tree_invariant(ret, store=st, what='popped node')
                    check(ret.first_token is st.get_first() and ret.last_token is st.get_last(), 'tree: popped node is not the whole of its store')
            elif facet == 'reparse':
                docenv.tree_invariant(f, what='tree after %s' % op)
                docenv.reparse_equivalent(f, what='reparse after %s %s k=%s' % (op, (si, sj, step), k))
                # ... and the inserted children are live parts of the document: a follow-up edit INSIDE each of them shows in the text
                edited = 0
                for d in donors[:k]:
                    if any(d is x for x in ref2) and isinstance(d, M.RawTreeModel) and hasattr(type(d), 'inline_comment'):
                        d.inline_comment = 'fu%d' % edited
                        edited += 1
                if edited:
                    docenv.tree_invariant(f, what='tree after %s and a follow-up edit inside the inserted children' % op)
                    docenv.reparse_equivalent(f, what='reparse after %s %s k=%s and inline_comment = ... on each inserted child' % (op, (si, sj, step), k))
            else:
                raise AssertionError(facet)

    name = 'rep_%s_%s%d_%s%s%s%s%s%s' % (facet, scaf_name, n, op, ('_s%s' % step).replace('-', 'm') if step is not None else '',
                                          ('_attached_' + attached) if attached else '', ('_after_' + pre) if pre else '',
                                          ('_lf%d' % lf) if lf else '', '_twin' if twin else '')
    return name, cell




CELLS = {}


def _reg(name_fn, tiers, timeout, family, bounds, twin=False, cost=None):
    name, fn = name_fn
    assert name not in CELLS, 'duplicate cell name ' + name
    CELLS[name] = dict(fn=fn, tiers=tiers, timeout=timeout, family=family, bounds=bounds, twin=twin, cost=cost or timeout)


Q, T = ('quick', 'thorough'), ('thorough',)
FACET_PROP = {'views': 'C10', 'window': 'C03', 'tree': 'C05', 'reparse': 'C06', 'refuse': 'C19'}
SINGLE_OPS = ['insert', 'append', 'pop', 'pop_last', 'setitem', 'delitem', 'setslice', 'delslice', 'extend', 'clear', 'drop_many']
QUICK_SCAF = {'views': ['note_tags', 'txn_postings', 'txn_meta', 'open_cur'],
              'window': ['note_tags', 'open_cur', 'txn_postings', 'file_dirs'],
              'tree': ['txn_postings', 'txn_meta', 'note_tags', 'file_dirs'],
              'reparse': ['note_tags', 'open_cur', 'txn_postings', 'cost_comps'],
              'refuse': ['note_tags', 'txn_postings', 'open_cur']}


def _bounds(scaf, n, op, step=None):
    return ('%s with %d items, %s: index/bounds symbolic in [-n-3, n+3] (extreme = None for slices)%s, donors 0..3 of symbolic kinds'
            % (scaf, n, op, '' if step is None else ', step %d' % step))


for _facet, _prop in FACET_PROP.items():
    for _scaf in SCAFFOLDS:
        for _n in (0, 1, 2, 3, 4):
            for _op in SINGLE_OPS:
                if _n == 0 and _op in ('pop', 'pop_last', 'setitem', 'delitem') and _facet not in ('refuse', 'views'):
                    continue
                if _n == 0 and _op == 'drop_many' and _facet not in ('refuse', 'views'):
                    continue
                if _facet == 'refuse' and _op in ('append', 'clear', 'delslice', 'extend', 'insert', 'setslice'):
                    continue   # these never refuse with fresh donors (attached donors: separate cells below)
                quick = _scaf in QUICK_SCAF[_facet] and _n in ((0, 3) if _op in ('setslice', 'delslice', 'insert') else (2,) if _op in ('setitem', 'pop', 'delitem') else (3,) if _op == 'drop_many' else (1,))
                if _op == 'drop_many' and quick and _scaf not in QUICK_SCAF[_facet][:2]:
                    quick = False
                _reg(make_rep(_scaf, _n, _op, _facet), {_prop: Q if quick else T}, 900, 'rep/' + _facet, _bounds(_scaf, _n, _op),
                     cost=(2 * _n + 7) ** (2 if 'slice' in _op else 1) * (4 if _op in ('setslice', 'extend') else 1))
            for _step in (2, -1, -2, 3):
                for _op in ('setslice_ext', 'delslice_ext'):
                    if _n < 2:
                        continue
                    quick = (_scaf in QUICK_SCAF[_facet][:2] or (_scaf == 'txn_postings' and _facet in ('reparse', 'window') and _op == 'setslice_ext')) and _n == 3 and _step in (2, -1)
                    _reg(make_rep(_scaf, _n, _op, _facet, step=_step), {_prop: Q if quick else T}, 900, 'rep/' + _facet,
                         _bounds(_scaf, _n, _op, _step), cost=(2 * _n + 7) ** 2 * 2)
# attached donors: must be refused, both documents untouched (C19); the tree stays valid (C05)
for _scaf in SCAFFOLDS:
    for _n in (0, 2, 3):
        for _op in ('insert', 'append', 'setitem', 'setslice', 'extend'):
            if _n == 0 and _op == 'setitem':
                continue
            for _kind in ATTACHED_KINDS:
                if _kind == 'deleted' and _scaf not in ('txn_postings', 'txn_meta', 'posting_meta', 'file_dirs'):
                    continue      # token items are free once deleted
                quick = ((_scaf in ('note_tags', 'txn_postings', 'file_dirs') and _n == 2 and _kind in ('mid', 'tail_tok', 'head_tree')
                          and _op in ('insert', 'setitem', 'setslice', 'extend'))
                         or (_kind == 'deleted' and _scaf in ('txn_postings', 'file_dirs') and _n == 3 and _op in ('setslice', 'setitem', 'insert')
                             and not (_scaf == 'file_dirs' and _op == 'setslice')))      # file_dirs3 setslice: > 400 s CPU, thorough only
                _reg(make_rep(_scaf, _n, _op, 'refuse', attached=_kind), {'C19': Q if quick else T, 'C05': Q if (quick and _kind != 'mid' and _op != 'extend') else T},
                     900, 'rep/refuse-attached',
                     _bounds(_scaf, _n, _op) + '; one donor (symbolic position in the batch) is a node attached elsewhere (%s)' % _kind, cost=300)
# histories of length 2 through the raw list
for _facet, _prop in FACET_PROP.items():
    if _facet == 'refuse':
        continue
    for _scaf in SCAFFOLDS:
        for _pre in ('insert', 'pop', 'setslice', 'delslice', 'extend'):
            for _op in ('insert', 'pop', 'setitem', 'delitem', 'append', 'extend', 'clear'):
                quick = _scaf in QUICK_SCAF[_facet][:2] and (_pre, _op) in (('insert', 'pop'), ('pop', 'insert'), ('setslice', 'setitem'), ('setslice', 'pop'), ('extend', 'delitem'))
                _reg(make_rep(_scaf, 2, _op, _facet, pre=_pre), {_prop: Q if quick else T}, 900, 'rep2/' + _facet,
                     '%s with 2 items: raw %s at a symbolic index, then %s' % (_scaf, _pre, _bounds(_scaf, 2, _op)), cost=600)
# block layouts: the same operations on stores re-partitioned into symbolically chosen legal block layouts (load factors 2, 4, 5)
BLK_QUICK = {('note_tags', 'delslice'), ('file_dirs', 'delslice'), ('txn_postings', 'setslice'), ('note_tags', 'setslice')}
for _facet, _prop in FACET_PROP.items():
    if _facet == 'refuse':
        continue
    for _scaf in ('note_tags', 'file_dirs', 'txn_postings', 'txn_meta', 'open_cur'):
        for _op in ('delslice', 'setslice', 'insert', 'pop', 'setitem'):
            for _lf in (2, 4, 5):
                quick = (_scaf, _op) in BLK_QUICK and _lf in (2, 4) and _facet != 'views'
                _reg(make_rep(_scaf, 4, _op, _facet, lf=_lf), {_prop: Q if quick else T}, 900, 'blk/' + _facet,
                     '%s with 4 items, %s with in-range symbolic bounds (<= 1 donor) on a store re-partitioned for load factor %d: symbolic block pattern '
                     '(8 cycles over smallest / nominal / largest legal size) and symbolic size of the first block' % (_scaf, _op, _lf), cost=500)
for _facet, _prop in FACET_PROP.items():
    _reg(make_rep('note_tags', 2, 'setslice', _facet, twin=True), {_prop: Q}, 120, 'rep/' + _facet, 'vacuity twin', twin=True, cost=1)

FILES = ['autobean_refactor/models/internal/properties.py', 'autobean_refactor/models/internal/value_properties.py',
         'autobean_refactor/models/internal/fields.py', 'autobean_refactor/models/internal/repeated.py',
         'autobean_refactor/models/internal/indexes.py', 'autobean_refactor/models/internal/interleaving_comments.py',
         'autobean_refactor/models/meta_item_internal.py', 'autobean_refactor/models/base.py', 'autobean_refactor/token_store.py']
ENCODES = ['autobean_refactor/models/internal/properties.py: RepeatedNodeWrapper.' + n for n in (
    '__setitem__', '__delitem__', 'insert', 'append', 'pop', 'extend', 'clear', 'drop_many', '_insert_tokens', '_del_tokens', '_notify_splice')] + [
    'autobean_refactor/models/internal/value_properties.py: _RepeatedValueWrapperUpdateHandler.handle/handle_splice, RepeatedValueWrapper.__iter__/__len__',
    'autobean_refactor/models/internal/indexes.py: range_from_index, slice_from_range',
    'autobean_refactor/models/base.py: RawModel.detach, RawTreeModel.reattach', 'autobean_refactor/token_store.py: splice/insert/remove']
STUBS = ['TokenStore load factor set to 3 for scaffolds with >= 2 items (module globals, read at call time): documents span many blocks',
         'blk cells: the parsed store is re-partitioned (docenv.reblock) into a legal block layout chosen by symbolic selectors; every such layout is reachable through the public API',
         'scaffold documents and donor nodes are built by the real parser/constructors untraced (concrete); the operation under test runs traced '
         'with symbolic index, bounds, donor count and donor kinds',
         'C06 re-parse of the printed text runs untraced on the realised text of each path']
OUTSIDE = ['lists longer than 4 items; indexes beyond n+3 / below -n-3 (CPython clamps them like the box edge); more than 3 donors; '
           'steps other than 1, 2, 3, -1, -2; one operation per cell (pairs: hist cells)']


def selftest():
    return docenv.selftest()
