"""C12 -- token value, raw text and lexer agree.

Strings are `chr(c0)+chr(c1)+...` from symbolic code points (full Unicode, concrete length per cell); the lexer
oracle is the class's own terminal regex interpreted by symre with lark's single-terminal semantics.

  codec_<Class>_<n>        lexeme of length n -> from_raw_text keeps text; value -> from_value -> same value,
                           text is one lexeme of the type, and parses back to the value
  seq_<Class>_<n1>_<n2>    from_raw_text(s1) then two assignments (value / raw_text / indent, symbolic choice) with
                           lexemes s2, s1: afterwards value and raw text describe each other and the text is a lexeme
"""
import datetime

from symx.env import NATIVE, check, Fail, pick, R
from symx import lexenv, decenv  # noqa: F401 (decenv repairs CrossHair's Decimal parser)
from symx.lexenv import full
from autobean_refactor import models

MAXCP = 0x10FFFF


def build(cps, n):
    s = ''
    for c in cps[:n]:
        s = s + chr(c)
    return s


def parse_pair(cls, raw_text):
    """(value-like) meaning of a raw text, uniform over token classes."""
    return cls._parse_value(raw_text)


def meaning(tok):
    if isinstance(tok, models.BlockComment):
        return (tok.indent, tok.value)
    return tok.value


_UNESC = {'n': '\n', 't': '\t', 'r': '\r', 'f': '\f', 'b': '\b'}


def ref_meaning(cls, s):
    """The documented meaning of a lexeme, written independently of the code under test (docs/ and the beancount lexer it cites):
    strings drop the quotes and read `\\x` as the escape for n t r f b, else as x itself; an inline comment is what follows the `;` and
    the blanks (U+0020 only) after it; tags and links drop their sigil, meta keys their colon; accounts, currencies, indents and
    blanks mean their own text.  None = no independent reading here (flags: the keyword txn means '*'; block comments: bcindent / seq cells; numbers and dates: own cells)."""
    if cls is models.EscapedString:
        body = s[1:-1]
        out = ''
        k = 0
        n = len(body)
        while k < n:
            ch = body[k]
            if ch == '\\' and k + 1 < n:
                nx = body[k + 1]
                if nx == '\n':
                    return None      # backslash + line feed: beancount reads a line feed, this library keeps both characters (observed, round-trips; not asserted either way)
                out = out + (_UNESC[nx] if nx in _UNESC else nx)
                k += 2
            else:
                out = out + ch
                k += 1
        return out
    if cls is models.InlineComment:
        k = 1
        while k < len(s) and s[k] == ' ':
            k += 1
        return s[k:]
    if cls in (models.Tag, models.Link):
        return s[1:]
    if cls is models.MetaKey:
        return s[:-1]
    if cls in (models.Account, models.Currency, models.Indent, models.Whitespace, models.Newline):      # flags: the keyword txn means '*' - no independent reading here
        return s
    if cls is models.Bool:
        return s == 'TRUE'
    return None


def from_meaning(cls, m):
    if cls is models.BlockComment:
        return cls.from_value(m[1], indent=m[0])
    return cls.from_value(m)


def date_fields(cps):
    """Independent reading of a DATE lexeme (given as code points): (y, m, d) from the digit groups."""
    groups = [0]
    for c in cps:
        if (c == 45) | (c == 47):      # '-' or '/'
            groups.append(0)
        else:
            groups[-1] = groups[-1] * 10 + (c - 48)
    return groups


def calendar_ok(y, m, d):
    """Gregorian validity as one boolean (no forks): what datetime.date accepts."""
    leap = ((y % 4 == 0) & (y % 100 != 0)) | (y % 400 == 0)
    dim = 31 - ((m == 4) | (m == 6) | (m == 9) | (m == 11)) - 3 * (m == 2) + ((m == 2) & leap)
    return (1 <= y) & (y <= 9999) & (1 <= m) & (m <= 12) & (1 <= d) & (d <= dim)


def legit_refusal(cls, e, cps=None):
    """A DATE lexeme outside the calendar has no meaning: Date rightly refuses it with ValueError - and only then."""
    if cls is not models.Date or not isinstance(e, ValueError):
        return False
    g = date_fields(cps)
    if len(g) != 3:
        return False
    return not calendar_ok(g[0], g[1], g[2])


def make_codec(cls, n, twin=False, value_to_text=True):
    rule = cls.RULE
    has_value = hasattr(cls, '_parse_value')

    def cell(c0: int, c1: int, c2: int, c3: int, c4: int, c5: int, c6: int, c7: int, c8: int, c9: int) -> None:
        assert 0 <= c0 <= MAXCP and 0 <= c1 <= MAXCP and 0 <= c2 <= MAXCP and 0 <= c3 <= MAXCP and 0 <= c4 <= MAXCP
        assert 0 <= c5 <= MAXCP and 0 <= c6 <= MAXCP and 0 <= c7 <= MAXCP and 0 <= c8 <= MAXCP and 0 <= c9 <= MAXCP
        s = build([c0, c1, c2, c3, c4, c5, c6, c7, c8, c9], n)
        if not full(rule, s):
            return
        cps = [c0, c1, c2, c3, c4, c5, c6, c7, c8, c9][:n]
        try:
            tok = cls.from_raw_text(s)
        except Exception as e:
            if legit_refusal(cls, e, cps):
                return
            raise Fail('from_raw_text refused a lexeme of its type: %r' % (e,))
        if cls is models.Date:
            g = date_fields(cps)
            check(len(g) == 3 and calendar_ok(g[0], g[1], g[2]), 'Date accepted a lexeme outside the calendar', R(s))
            v = tok.value
            check((v.year == g[0]) & (v.month == g[1]) & (v.day == g[2]), 'Date value differs from the digits of the lexeme', R(s))
        if twin:
            raise Fail('twin reached the assertion point')
        check(tok.raw_text == s, 'from_raw_text changed the text', R(s), R(tok.raw_text))
        if not has_value:
            return
        m = meaning(tok)
        check(parse_pair(cls, s) == m, 'value differs from _parse_value(raw_text)', R(s))
        ref = ref_meaning(cls, s)
        if ref is not None:
            check(m == ref, 'the value of the lexeme differs from its documented meaning:', R(s), 'reads', R(m), 'documented', R(ref))
        if not value_to_text:
            return   # value -> text goes through format(), where CrossHair realises: see the fmt_* cells
        t2 = from_meaning(cls, m)
        check(meaning(t2) == m, 'from_value(v).value != v', R(s), R(m))
        check(full(rule, t2.raw_text), 'from_value produced a text that is not one lexeme of the type', R(s), R(m), R(t2.raw_text))
        check(parse_pair(cls, t2.raw_text) == m, 'text produced by from_value does not parse back to the value', R(m), R(t2.raw_text))

    return 'codec_%s_%d%s' % (cls.__name__, n, '_twin' if twin else ''), cell


def make_seq(cls, n1, n2, twin=False):
    rule = cls.RULE
    is_bc = cls is models.BlockComment

    def cell(op1: int, op2: int, c0: int, c1: int, c2: int, c3: int, d0: int, d1: int, d2: int, d3: int) -> None:
        assert 0 <= op1 <= 2 and 0 <= op2 <= 2
        assert 0 <= c0 <= MAXCP and 0 <= c1 <= MAXCP and 0 <= c2 <= MAXCP and 0 <= c3 <= MAXCP
        assert 0 <= d0 <= MAXCP and 0 <= d1 <= MAXCP and 0 <= d2 <= MAXCP and 0 <= d3 <= MAXCP
        s1 = build([c0, c1, c2, c3], n1)
        s2 = build([d0, d1, d2, d3], n2)
        if not full(rule, s1) or not full(rule, s2):
            return
        try:
            tok = cls.from_raw_text(s1)
            m1 = meaning(tok)
            m2 = meaning(cls.from_raw_text(s2))
        except Exception as e:
            raise
        op1 = pick(op1, 0, 2)
        op2 = pick(op2, 0, 2)
        if not is_bc and (op1 == 2 or op2 == 2):
            return
        if twin:
            raise Fail('twin reached the assertion point')
        for op, s, m in ((op1, s2, m2), (op2, s1, m1)):
            if op == 0:
                if is_bc:
                    tok.value = m[1]
                else:
                    tok.value = m
            elif op == 1:
                tok.raw_text = s
            else:
                tok.indent = m[0]
            check(parse_pair(cls, tok.raw_text) == meaning(tok), 'value and raw text disagree after assignment', op, R(s1), R(s2), R(tok.raw_text))
            check(full(rule, tok.raw_text), 'raw text is no longer one lexeme of the type', op, R(s1), R(s2), R(tok.raw_text))
        if op2 == 1:
            check(tok.raw_text == s1, 'raw_text assignment not verbatim')
        if op2 == 0 and not is_bc:
            check(tok.value == m1, 'value assignment not read back')

    return 'seq_%s_%d_%d%s' % (cls.__name__, n1, n2, '_twin' if twin else ''), cell


BC_INDENTS = ['', ' ', '\t', '    ']


def make_bc_indent(nlines, i0, new, nfree, twin=False):
    """Block comments whose lines carry DIFFERENT indentation (a lexeme: the terminal allows any blanks per line); the
    first line's indent and the assigned indent are fixed per cell, the other lines' indents, the blank after ';' and
    `nfree` code points of content are symbolic; then `indent = x` (and `value = v`) assignments."""
    ni = len(BC_INDENTS)

    def cell(i1: int, i2: int, c0: int, c1: int, c2: int, sp: int, then_value: bool) -> None:
        assert 0 <= i1 < ni and 0 <= i2 < ni and 0 <= sp <= 7
        assert 0 <= c0 <= MAXCP and 0 <= c1 <= MAXCP and 0 <= c2 <= MAXCP
        cs = [c0, c1, c2][:nfree]
        for c in cs:
            if (c == 10) | (c == 13):
                return
        content = [chr(c) for c in cs] + ['b', 'c', 'd'][nfree:]
        inds = [BC_INDENTS[i0]] + [BC_INDENTS[pick(x, 0, ni - 1)] for x in (i1, i2)[:nlines - 1]]
        sp = pick(sp, 0, 2 ** nlines - 1)
        lines = [inds[k] + ';' + (' ' if sp >> k & 1 else '') + content[k] for k in range(nlines)]
        s = '\n'.join(lines)
        if not full('BLOCK_COMMENT', s):
            return
        tok = models.BlockComment.from_raw_text(s)
        check(tok.raw_text == s, 'from_raw_text changed the text')
        v0 = tok.value
        newi = BC_INDENTS[new]
        if twin:
            raise Fail('twin reached the assertion point')
        tok.indent = newi
        check(tok.indent == newi, 'indent assignment not read back', R(s), R(newi))
        check(tok.value == v0, 'indent assignment changed the value', R(s), R(newi), R(tok.value))
        check(full('BLOCK_COMMENT', tok.raw_text), 'raw text is no longer one BLOCK_COMMENT lexeme after an indent assignment', R(s), R(newi), R(tok.raw_text))
        check(parse_pair(models.BlockComment, tok.raw_text) == meaning(tok), 'indent/value and raw text disagree after an indent assignment', R(s), R(newi), R(tok.raw_text))
        if pick(then_value, 0, 1):
            tok.value = v0
            check(full('BLOCK_COMMENT', tok.raw_text) and parse_pair(models.BlockComment, tok.raw_text) == (newi, v0), 'value assignment after an indent assignment', R(tok.raw_text))

    return 'bcindent_%d_i%d_n%d_f%d%s' % (nlines, i0, new, nfree, '_twin' if twin else ''), cell


CELLS = {}


def _reg(name_fn, tiers, timeout, family, bounds, twin=False, cost=None):
    name, fn = name_fn
    assert name not in CELLS, 'duplicate cell name ' + name
    CELLS[name] = dict(fn=fn, tiers=tiers, timeout=timeout, family=family, bounds=bounds, twin=twin, cost=cost or timeout)


Q, T = ('quick', 'thorough'), ('thorough',)
STRINGY = [models.EscapedString, models.InlineComment, models.BlockComment, models.Tag, models.Link, models.MetaKey,
           models.Account, models.Currency, models.Indent, models.Ignored]
for _cls in STRINGY:
    for _n in range(1, 8):
        if _n == 7 and _cls in (models.Account,):
            continue
        _reg(make_codec(_cls, _n), {'C12': Q if _n <= 5 else T}, 900, 'codec', '%s: all texts of %d code points (full Unicode)' % (_cls.__name__, _n), cost=10 ** _n)

for _cls in (models.Number, models.Date):
    for _n in range(1, 11):
        _reg(make_codec(_cls, _n, value_to_text=False), {'C12': Q if _n <= 8 else T}, 900, 'codec/text->value',
             '%s: all texts of %d code points (full Unicode): lexeme accepted, text kept, value = _parse_value' % (_cls.__name__, _n), cost=10 ** min(_n, 4))
for _cls in (models.Bool, models.Null, models.PostingFlag, models.TransactionFlag, models.Whitespace, models.Newline,
             models.Comma, models.Asterisk):
    for _n in range(0, 6):
        _reg(make_codec(_cls, _n), {'C12': Q}, 300, 'codec', '%s: all texts of %d code points' % (_cls.__name__, _n), cost=5)


def make_fmt_date(ys, ms, ds):
    """value -> text for dates.  f-string formatting of a symbolic int is a C boundary where CrossHair realises the
    value, so this direction is decided on boundary witnesses chosen through the solver, not universally."""
    def cell(yi: int, mi: int, di: int) -> None:
        assert 0 <= yi < len(ys) and 0 <= mi < len(ms) and 0 <= di < len(ds)
        y, m, d = ys[pick(yi, 0, len(ys) - 1)], ms[pick(mi, 0, len(ms) - 1)], ds[pick(di, 0, len(ds) - 1)]
        try:
            v = datetime.date(y, m, d)
        except ValueError:
            return
        t = models.Date.from_value(v)
        check(t.value == v, 'from_value(v).value != v')
        check(full('DATE', t.raw_text), 'Date.from_value produced a text that is not a DATE lexeme', R(v), R(t.raw_text))
        check(models.Date._parse_value(t.raw_text) == v, 'Date text does not parse back', R(v), R(t.raw_text))
        t.value = datetime.date(2000, 1, 1)
        t.value = v
        check(full('DATE', t.raw_text) and models.Date._parse_value(t.raw_text) == v, 'Date.value setter', R(v), R(t.raw_text))

    return 'fmt_Date_%dx%dx%d' % (len(ys), len(ms), len(ds)), cell


def make_fmt_number(shape, alphabet):
    """lexeme -> value -> text for numbers of a concrete shape ('d' = digit from `alphabet`, other characters literal).
    Decimal formatting is a realisation boundary (CrossHair's Decimal port explodes on symbolic digits), so digits are
    case-split through the solver over the given alphabet."""
    nd = shape.count('d')
    na = len(alphabet)

    def cell(i0: int, i1: int, i2: int, i3: int, i4: int, i5: int, i6: int, i7: int, i8: int, i9: int) -> None:
        assert 0 <= i0 < na and 0 <= i1 < na and 0 <= i2 < na and 0 <= i3 < na and 0 <= i4 < na
        assert 0 <= i5 < na and 0 <= i6 < na and 0 <= i7 < na and 0 <= i8 < na and 0 <= i9 < na
        idx = [i0, i1, i2, i3, i4, i5, i6, i7, i8, i9]
        it = iter(idx)
        s = ''.join(alphabet[pick(next(it), 0, len(alphabet) - 1)] if ch == 'd' else ch for ch in shape)
        if not full('NUMBER', s):
            return
        t = models.Number.from_raw_text(s)
        check(t.raw_text == s, 'from_raw_text changed the text')
        v = t.value
        t2 = models.Number.from_value(v)
        check(t2.value == v, 'from_value(v).value != v')
        check(full('NUMBER', t2.raw_text), 'Number.from_value produced a text that is not a NUMBER lexeme', s, R(t2.raw_text))
        check(models.Number._parse_value(t2.raw_text) == v, 'Number text does not parse back', s, R(t2.raw_text))

    return 'fmt_Number_%s_%s' % (shape.replace('.', 'p').replace(',', 'c'), ''.join(alphabet)), cell


def make_fmt_number_scale(max_z):
    """Numbers with many leading fractional zeros / trailing integer zeros (where scientific notation would appear)."""
    def cell(z: int, di: int, frac: bool) -> None:
        assert 0 <= z <= max_z and 0 <= di <= 2
        z = pick(z, 0, max_z)
        dgt = '159'[pick(di, 0, 2)]
        s = ('0.' + '0' * z + dgt) if frac else (dgt + '0' * z)
        t = models.Number.from_raw_text(s)
        v = t.value
        t2 = models.Number.from_value(v)
        check(full('NUMBER', t2.raw_text), 'Number.from_value produced a text that is not a NUMBER lexeme', s, R(t2.raw_text))
        check(models.Number._parse_value(t2.raw_text) == v, 'Number text does not parse back', s, R(t2.raw_text))
        t.value = models.Number._parse_value('7')
        t.value = v
        check(full('NUMBER', t.raw_text) and models.Number._parse_value(t.raw_text) == v, 'Number.value setter', s, R(t.raw_text))

    return 'fmt_Number_scale_%d' % max_z, cell


_reg(make_fmt_date([1, 9, 10, 99, 100, 999, 1000, 2024, 9999], [1, 2, 9, 10, 12], [1, 9, 10, 28, 29, 31]), {'C12': Q}, 600, 'fmt/witness',
     'Date value->text on 9x5x6 boundary dates (year digit counts 1-4): witnesses, not universal', cost=200)
_reg(make_fmt_date(list(range(1, 13)) + [99, 100, 101, 999, 1000, 1001, 1900, 2000, 2024, 9998, 9999], list(range(1, 13)), [1, 2, 9, 10, 11, 27, 28, 29, 30, 31]),
     {'C12': T}, 3000, 'fmt/witness', 'Date value->text on 23x12x10 boundary dates: witnesses, not universal')
for _shape, _al in [('d', '0123456789'), ('dd', '0123456789'), ('d.', '019'), ('d.d', '0159'), ('d.dd', '019'), ('dd.d', '019'), ('ddd', '019'),
                    ('d,ddd', '019'), ('d,ddd.d', '09'), ('dd,ddd', '09')]:
    _reg(make_fmt_number(_shape, _al), {'C12': Q}, 600, 'fmt/witness', 'Number lexeme->value->text, shape %s digits from %r: case-split, not universal' % (_shape, _al), cost=len(_al) ** _shape.count('d'))
for _shape, _al in [('dddd', '019'), ('d.ddd', '019'), ('ddd.dd', '09'), ('d,ddd,ddd', '09'), ('ddd,ddd.dd', '09'), ('0.dddddd', '09'), ('dddddd', '09')]:
    _reg(make_fmt_number(_shape, _al), {'C12': T}, 1800, 'fmt/witness', 'Number lexeme->value->text, shape %s digits from %r: case-split, not universal' % (_shape, _al))
_reg(make_fmt_number_scale(12), {'C12': Q}, 600, 'fmt/witness', 'Number 0.0..0d / d0..0 with up to 12 zeros: witnesses', cost=100)
_reg(make_fmt_number_scale(40), {'C12': T}, 1800, 'fmt/witness', 'Number 0.0..0d / d0..0 with up to 40 zeros: witnesses')

for _cls in (models.EscapedString, models.InlineComment, models.BlockComment, models.Tag, models.MetaKey, models.Account, models.Currency):
    for _n1, _n2, _t in [(2, 2, Q), (3, 2, Q), (2, 3, Q), (3, 3, Q), (4, 3, T), (3, 4, T), (4, 4, T)]:
        if _cls in (models.MetaKey, models.Account, models.Currency) and min(_n1, _n2) < 3 and _cls is not models.Currency:
            continue
        _reg(make_seq(_cls, _n1, _n2), {'C12': _t}, 1200, 'seq', '%s: from_raw_text(s1) then 2 assignments (value/raw_text/indent) with lexemes of %d and %d code points' % (_cls.__name__, _n1, _n2), cost=10 ** (_n1 + _n2 - 2))
for _i0 in range(len(BC_INDENTS)):
    for _new in range(len(BC_INDENTS)):
        _reg(make_bc_indent(2, _i0, _new, 1), {'C12': Q}, 900, 'bcindent', 'block comment of 2 lines, first indent %r, second indent symbolic from %r, optional blank after ";", 1 symbolic code point: indent = %r (then value)'
             % (BC_INDENTS[_i0], BC_INDENTS, BC_INDENTS[_new]), cost=60)
        _reg(make_bc_indent(3, _i0, _new, 2), {'C12': T}, 2400, 'bcindent', 'block comment of 3 lines, first indent %r, other indents symbolic, 2 symbolic code points: indent = %r (then value)'
             % (BC_INDENTS[_i0], BC_INDENTS[_new]))
_reg(make_bc_indent(2, 1, 0, 1, twin=True), {'C12': Q}, 120, 'bcindent', 'vacuity twin', twin=True, cost=1)
_reg(make_codec(models.BlockComment, 3, twin=True), {'C12': Q}, 120, 'codec', 'vacuity twin', twin=True, cost=1)
_reg(make_seq(models.EscapedString, 2, 2, twin=True), {'C12': Q}, 120, 'seq', 'vacuity twin', twin=True, cost=1)

FILES = ['autobean_refactor/models/%s.py' % f for f in (
    'escaped_string', 'block_comment', 'inline_comment', 'number', 'date', 'tag', 'link', 'meta_key', 'account', 'currency',
    'bool', 'null', 'punctuation', 'posting_flag', 'transaction_flag', 'spacing', 'ignored', 'internal/base_token_models')] + [
    'autobean_refactor/beancount.lark', 'autobean_refactor/token_store.py']
ENCODES = ['autobean_refactor/models/*: from_raw_text/from_value/_parse_value/_format_value/value/raw_text/indent of every token class',
           'autobean_refactor/beancount.lark: terminal regexes (taken from the built lark parser at run time)']
STUBS = ['Number values are CrossHair\'s pure-Python Decimal (port of _pydecimal) with its numeral regex interpreted by symre; counterexamples are replayed on the C decimal',
         'lexer oracle = the terminal regex of the class (from Parser()._lark at run time) interpreted by symx.symre with '
         're.match leftmost-first semantics; symre is compared with re on ~340k cases at the start of every run']
OUTSIDE = ['strings longer than 7 code points (5 in quick; 10 for Number/Date text->value); assignment sequences longer than 2',
           'value->text of Date (f-string format of an int) and Number (Decimal.__format__) is a realisation boundary for CrossHair: '
           'that direction is decided on solver-enumerated boundary witnesses (fmt_* cells), not for all values; text->value is universal within the length bound']


def selftest():
    return lexenv.selftest()
