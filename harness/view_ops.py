"""Operations THROUGH the aliasing views of a repeated field (string views, type-filtered views, the meta mapping view,
comment claim/unclaim), optionally preceded by an operation through the raw list, against Python list / ordered-dict
(first match) semantics.

view_<facet>_<scaffold><n>_<view>_<op>[_after_<rawop>]
   facets as in rep_ops: views (C10), window (C03), tree (C05), reparse (C06), refuse (C19)
claim_<facet>_<scaffold><n>_<mode>   unclaim / claim cycles of interleaving comments with every view alive (C10, C04, C14)
"""
import decimal

from symx.env import NoTracing, check, Fail, NATIVE, pick, R, set_load_factor
from symx import docenv
from symx.docenv import text_of, Snapshot
from autobean_refactor import models
from harness import rep_ops
from harness.rep_ops import SCAFFOLDS, apply_list, apply_real, tree_dump, REFUSALS, FILE_OFFSET

M = models
D = decimal.Decimal


class View:
    def __init__(self, attr, pred, kind, new_values, conv=None):
        self.attr, self.pred, self.kind, self.new_values, self.conv = attr, pred, kind, new_values, conv


_isT = lambda x: isinstance(x, M.Tag)
_isL = lambda x: isinstance(x, M.Link)
_isP = lambda x: isinstance(x, M.Posting)
_isMI = lambda x: isinstance(x, M.MetaItem)
_notC = lambda x: not isinstance(x, M.BlockComment)
_any = lambda x: True

VIEWS = {
    'note_tags': [View('tags', _isT, 'str', ['vx', 'a']), View('links', _isL, 'str', ['vy', 'b'])],
    'txn_tags': [View('tags', _isT, 'str', ['vx', 'a']), View('links', _isL, 'str', ['vy', 'b'])],
    'open_cur': [View('currencies', _any, 'str', ['CAD', 'USD'])],
    'txn_postings': [View('raw_postings', _isP, 'node', [rep_ops._posting('N'), rep_ops._posting('O')])],
    'txn_meta': [View('raw_meta', _isMI, 'node', [rep_ops._meta('nk'), rep_ops._meta('ka')])],
    'posting_meta': [View('raw_meta', _isMI, 'node', [rep_ops._pmeta('nk'), rep_ops._pmeta('ka')])],
    'file_dirs': [View('raw_directives', _notC, 'node', [lambda: docenv.parse('2000-05-05 close Assets:Q', M.Close),
                                                         lambda: docenv.parse('2000-06-06 open Assets:R', M.Open)])],
}

VIEW_OPS = ['append', 'insert', 'pop', 'pop_last', 'setitem', 'delitem', 'delslice', 'setslice', 'extend', 'clear', 'remove', 'discard']
RAW_PRE_OPS = [None, 'insert', 'pop', 'setitem', 'delslice', 'setslice_ext']


def view_value(view, x):
    return x.value if view.kind == 'str' else x


def expected_view(op, L, i, j, vals, target):
    """Python list semantics for the view; documented deviation: slice assignment must keep the length."""
    L = list(L)
    ret = None
    if op == 'remove':
        L.remove(target)            # ValueError if absent
    elif op == 'discard':
        L = [x for x in L if not (x == target)]
    elif op == 'setslice':
        r = range(len(L))[i:j]
        if len(r) != len(vals):
            raise ValueError('size')
        for k, v in zip(r, vals):
            L[k] = v
    else:
        L, ret = apply_list(op, L, i, j, vals, None)
    return L, ret


def expected_survivors(op, L, i, j, target, node_view):
    """Indexes (into the view before the op) of the elements that list semantics keep in place as the same objects."""
    n = len(L)
    idx = list(range(n))
    if op in ('insert', 'append', 'extend'):
        return idx
    if op in ('setitem', 'setslice'):
        if not node_view:
            return idx          # string views update the existing token in place
        r = range(n)[i:j] if op == 'setslice' else [range(n)[i]]
        return [x for x in idx if x not in r]
    if op in ('pop', 'delitem'):
        k = range(n)[i]
        return [x for x in idx if x != k]
    if op == 'pop_last':
        return idx[:-1]
    if op == 'delslice':
        r = range(n)[i:j]
        return [x for x in idx if x not in r]
    if op == 'clear':
        return []
    if op == 'remove':
        first = next(x for x in idx if L[x] == target)
        return [x for x in idx if x != first]
    if op == 'discard':
        return [x for x in idx if not (L[x] == target)]
    raise AssertionError(op)


def apply_view(op, w, i, j, vals, target):
    if op == 'remove':
        return w.remove(target)
    if op == 'discard':
        return w.discard(target)
    return apply_real(op, w, i, j, vals, None)


def make_view(scaf_name, n, vi, op, facet, pre=None, twin=False):
    sc = SCAFFOLDS[scaf_name]
    view = VIEWS[scaf_name][vi]
    off = FILE_OFFSET.get(scaf_name, 0)
    text = sc.make_text(n)
    nd = len(sc.donors)
    nv = len(view.new_values)
    box = n + 2 * off + 3
    fixed_k = {'append': 1, 'insert': 1, 'setitem': 1}.get(op)
    max_k = fixed_k if fixed_k is not None else (2 if op in ('setslice', 'extend') else 0)

    def cell(i: int, j: int, k: int, v0: int, v1: int, t: int, pi: int, pd: int) -> None:
        assert -box <= i <= box and -box <= j <= box and -box <= pi <= box
        assert (k == fixed_k) if fixed_k is not None else (0 <= k <= max_k)
        assert 0 <= v0 < nv and 0 <= v1 < nv and 0 <= t <= n + 1 and 0 <= pd < nd
        with NoTracing():
            set_load_factor(3 if n >= 2 else 1000)
            f = docenv.PARSER.parse(text, M.File)
            docenv.warm(f)
            parent = sc.get_parent(f)
            raw = getattr(parent, sc.raw_attr)
            w = getattr(parent, view.attr)
            others = [(name, getattr(parent, name), pred, conv) for name, pred, conv in sc.views]
            for _, o, _, _ in others:
                list(o)
            list(w)
            store = f.token_store
        # optional preceding operation through the RAW list (its own correctness: rep_ops cells)
        if pre is not None:
            pi = pick(pi, -box, box)
            pd = pick(pd, 0, nd - 1)
            with NoTracing():
                try:
                    if pre == 'setslice_ext':    # raw[pi:pi+3:2] = two donors of different kinds: same length, kinds at those positions may change
                        apply_real(pre, raw, pi, pi + 3, [sc.donors[pd](), sc.donors[1 - pd]()], 2)
                    else:
                        apply_real(pre, raw, pi, pi + 1 if pre == 'delslice' else None, [sc.donors[pd]()], None)
                except REFUSALS:
                    return
        uses_i = op in ('insert', 'pop', 'setitem', 'delitem', 'delslice', 'setslice')
        uses_j = op in ('delslice', 'setslice')
        i = pick(i, -box, box) if uses_i else 0
        j = pick(j, -box, box) if uses_j else 0
        k = pick(k, 0, max(max_k, 1))
        vsel = [pick(v, 0, nv - 1) for v in (v0, v1)[:k]]
        t = pick(t, 0, n + 1) if op in ('remove', 'discard') else 0
        with NoTracing():
            ref = list(raw)
            L = [view_value(view, x) for x in ref if view.pred(x)]
            Lobj = [x for x in ref if view.pred(x)]
            vals = [(view.new_values[s]() if view.kind == 'node' else view.new_values[s]) for s in vsel]
            target = None
            if op in ('remove', 'discard'):
                target = L[t] if t < len(L) else (view.new_values[0]() if view.kind == 'node' else 'absent')
            before = Snapshot(store)
            dump_before = tree_dump(f)
            parent_first, parent_last = parent.first_token, parent.last_token
            item_tokens = {id(it): list(it.tokens) for it in ref}
            item_text = {id(it): text_of(it) for it in ref}
            exp_exc = None
            try:
                L2, exp_ret = expected_view(op, L, i, j, vals, target)
            except REFUSALS as e:
                exp_exc = type(e)
            surv = expected_survivors(op, L, i, j, target, view.kind == 'node') if exp_exc is None else None
            got_exc = None
            ret = None
            try:
                ret = apply_view(op, w, i, j, vals, target)
            except REFUSALS as e:
                got_exc = type(e)
            if twin:
                if got_exc is None:
                    raise Fail('twin reached the assertion point')
                return
            what = '%s.%s %s %s' % (scaf_name, view.attr, op, (i, j, k))
            if facet == 'refuse':
                if exp_exc is None and got_exc is None:
                    return
                check(got_exc is not None, 'refuse:', what, 'an invalid call was accepted; list semantics:', exp_exc)
                after = Snapshot(store)
                check(after.text() == before.text(), 'refuse:', what, 'text changed by a refused call', R(after.text()))
                check(len(after.tokens) == len(before.tokens) and all(x is y for x, y in zip(after.tokens, before.tokens)), 'refuse:', what, 'token identities changed')
                check(tree_dump(f) == dump_before, 'refuse:', what, 'tree changed by a refused call')
                return
            if exp_exc is not None or got_exc is not None:
                if facet == 'views':
                    check(got_exc is exp_exc, 'views:', what, 'exception differs from list semantics: list', exp_exc, 'view', got_exc)
                return
            raw2 = list(raw)
            # only the designated children go away: other kinds untouched, surviving view elements are the same objects in order
            check([id(x) for x in raw2 if not view.pred(x) and any(x is y for y in ref)] == [id(x) for x in ref if not view.pred(x)],
                  facet + ':', what, 'removed or re-ordered children of another kind')
            check([id(x) for x in raw2 if view.pred(x) and any(x is y for y in ref)] == [id(Lobj[x]) for x in surv],
                  facet + ':', what, 'the children that went away are not the ones the operation designates')
            if facet == 'views':
                got = list(w)
                same = len(got) == len(L2) and all((a is b) if view.kind == 'node' else (a == b) for a, b in zip(got, L2))
                check(same, 'views:', what, 'view content', R(got), 'expected', R(L2))
                check(len(w) == len(L2), 'views:', what, 'len')
                if op in ('pop', 'pop_last'):
                    check((ret is exp_ret) if view.kind == 'node' else (ret == exp_ret), 'views:', what, 'pop returned', R(ret), 'expected', R(exp_ret))
                # the raw list: elements outside the view keep identity and order; view elements appear in view order
                check([id(x) for x in raw2 if not view.pred(x)] == [id(x) for x in ref if not view.pred(x)], 'views:', what, 'elements of other kinds were disturbed in the raw list')
                check([view_value(view, x) for x in raw2 if view.pred(x)] == got or view.kind == 'node', 'views:', what, 'raw list order differs from view order')
                for name, o, pred, conv in others:
                    g = list(o)
                    e = [conv(x) for x in raw2 if pred(x)]
                    ok = len(g) == len(e) and all((a is b) if conv is rep_ops._ident else (a == b) for a, b in zip(g, e))
                    check(ok, 'views:', what, 'other view', name, R(g), 'differs from the filtered raw list', R(e))
            elif facet == 'window':
                after = Snapshot(store)
                gone = [it for it in ref if not any(it is x for x in raw2)]
                newi = [it for it in raw2 if not any(it is x for x in ref)]
                old_tokens = [tk for it in gone for tk in item_tokens[id(it)]]
                new_tokens = [tk for it in newi for tk in it.tokens]
                if view.kind == 'str' and op in ('setitem', 'setslice'):
                    # in-place value update of existing tokens: only those tokens may change text
                    changed = [x for x in Lobj if item_text[id(x)] != text_of(x)]
                    allowed = {id(tk) for x in changed for tk in x.tokens}
                    for idx, tk in enumerate(after.tokens):
                        if idx < len(before.tokens) and tk is before.tokens[idx] and after.texts[idx] != before.texts[idx]:
                            check(id(tk) in allowed, 'window:', what, 'text of an unrelated token changed')
                    check(len(after.tokens) == len(before.tokens) or bool(gone or newi), 'window:', what, 'tokens appeared or disappeared')
                else:
                    docenv.check_window(before, after, parent_first, parent_last, old_tokens, new_tokens, what='window ' + what)
                for it in raw2:
                    if any(it is x for x in ref) and not (view.kind == 'str' and view.pred(it)):
                        check(text_of(it) == item_text[id(it)], 'window:', what, 'a sibling changed its text')
            elif facet == 'tree':
                docenv.tree_invariant(f, what='tree after ' + what)
                if op in ('pop', 'pop_last') and view.kind == 'node' and ret is not None:
                    docenv.tree_invariant(ret, store=ret.token_store, what='popped node')
            elif facet == 'reparse':
                docenv.tree_invariant(f, what='tree after ' + what)
                again = docenv.reparse_equivalent(f, what='reparse after ' + what)
                p2 = sc.get_parent(again)
                for name, o, pred, conv in others:   # what each view says == what the same view of the re-parsed text says
                    g = [docenv.semdump(x) if isinstance(x, M.RawModel) else x for x in o]
                    e = [docenv.semdump(x) if isinstance(x, M.RawModel) else x for x in getattr(p2, name)]
                    check(g == e, 'reparse:', what, 'view', name, 'says', R(g), 'but the printed text says', R(e))

    name = 'view_%s_%s%d_%s_%s%s%s' % (facet, scaf_name, n, view.attr, op, ('_after_' + pre) if pre else '', '_twin' if twin else '')
    return name, cell


# ---------------------------------------------------------------- meta mapping view
META_LINES = ['    ka: 1', '    ; mc', '    kb: "x"', '    ka: TRUE', '    kc:']
MAP_OPS = ['setitem', 'delitem', 'pop', 'pop_default', 'getitem', 'contains', 'setdefault_like']
KEYS = ['ka', 'kb', 'kc', 'zz']
MAP_VALUES = ['new', D('5'), None, True]


def make_map(n, op, facet, raw_view=False, pre=None, twin=False, col0=False):
    # col0: an unindented comment line is the first entry of the metadata block (valid, unusual): new items must still
    # take the indentation of the existing meta ITEMS
    text = docenv.embed('2000-01-01 * "n"' + ('\n; c0' if col0 else '') + ''.join('\n' + x for x in META_LINES[:n]) + '\n    Assets:A  1 USD')

    def cell(ki: int, vi: int, pi: int) -> None:
        assert 0 <= ki < len(KEYS) and 0 <= vi < len(MAP_VALUES) and -n - 3 <= pi <= n + 3
        ki, vi = pick(ki, 0, len(KEYS) - 1), pick(vi, 0, len(MAP_VALUES) - 1)
        if pre is not None:
            pi = pick(pi, -n - 3, n + 3)
        with NoTracing():
            f = docenv.PARSER.parse(text, M.File)
            txn = f.raw_directives[1]
            raw = txn.raw_meta_with_comments
            w = txn.raw_meta if raw_view else txn.meta
            list(txn.raw_meta), list(txn.meta)
            store = f.token_store
            if pre is not None:
                try:
                    apply_real(pre, raw, pi, pi + 1 if pre == 'delslice' else None, [rep_ops._meta('kb')()], None)
                except REFUSALS:
                    return
            items = [x for x in raw if isinstance(x, M.MetaItem)]
            pairs = [(x.key, x.value) for x in items]
            key, val = KEYS[ki], MAP_VALUES[vi]
            before = Snapshot(store)
            dump_before = tree_dump(f)
            first = next((idx for idx, (k2, _) in enumerate(pairs) if k2 == key), None)
            exp_exc = None
            exp_pairs, exp_ret = list(pairs), None
            if op == 'setitem':
                if raw_view:
                    newitem = rep_ops._meta(key)()
                    if first is None:
                        exp_pairs.append((key, 'v'))
                    else:
                        exp_pairs[first] = (key, 'v')
                else:
                    if first is None:
                        exp_pairs.append((key, val))
                    else:
                        exp_pairs[first] = (key, val)
            elif op in ('delitem', 'pop', 'pop_default'):
                if first is None:
                    if op == 'pop_default':
                        exp_ret = 'DEFAULT'
                    else:
                        exp_exc = KeyError
                else:
                    exp_ret = pairs[first][1]
                    del exp_pairs[first]
            elif op == 'getitem':
                if first is None:
                    exp_exc = KeyError
                else:
                    exp_ret = pairs[first][1]
            elif op == 'contains':
                exp_ret = first is not None
            got_exc, ret = None, None
            try:
                if op == 'setitem':
                    w[key] = newitem if raw_view else val
                elif op == 'delitem':
                    del w[key]
                elif op == 'pop':
                    ret = w.pop(key)
                elif op == 'pop_default':
                    ret = w.pop(key, 'DEFAULT')
                elif op == 'getitem':
                    ret = w[key]
                elif op == 'contains':
                    ret = key in w
            except (KeyError, IndexError, ValueError) as e:
                got_exc = type(e)
            if twin:
                if got_exc is None:
                    raise Fail('twin reached the assertion point')
                return
            what = 'meta%s %s key=%r val=%r n=%d' % ('(raw)' if raw_view else '', op, key, val, n)
            if facet == 'refuse':
                if exp_exc is None and got_exc is None:
                    return
                check(got_exc is not None, 'refuse:', what, 'a missing key was accepted')
                after = Snapshot(store)
                check(after.text() == before.text() and len(after.tokens) == len(before.tokens)
                      and all(x is y for x, y in zip(after.tokens, before.tokens)), 'refuse:', what, 'document changed by a refused call')
                check(tree_dump(f) == dump_before, 'refuse:', what, 'tree changed')
                return
            if facet == 'views':
                check(got_exc is exp_exc, 'views:', what, 'exception', got_exc, 'expected (dict semantics)', exp_exc)
                if got_exc is not None:
                    return
                if op in ('pop', 'pop_default', 'getitem') and exp_ret is not None and not raw_view:
                    r1 = text_of(ret) if isinstance(ret, M.RawModel) else ret
                    r2 = text_of(exp_ret) if isinstance(exp_ret, M.RawModel) else exp_ret
                    check(r1 == r2, 'views:', what, 'returned', R(r1), 'expected', R(r2))
                if op == 'contains':
                    check(ret == exp_ret, 'views:', what, 'contains')
                now = [(x.key, x.value) for x in raw if isinstance(x, M.MetaItem)]
                norm = lambda ps: [(k2, text_of(v2) if isinstance(v2, M.RawModel) else v2) for k2, v2 in ps]
                check(norm(now) == norm(exp_pairs), 'views:', what, 'mapping content', R(norm(now)), 'expected', R(norm(exp_pairs)))
                check(list(txn.meta.keys()) == [k2 for k2, _ in now] and list(txn.raw_meta.keys()) == [k2 for k2, _ in now], 'views:', what, 'keys() of the two mapping views differ')
                check(len(txn.meta) == len(now) and len(txn.raw_meta) == len(now), 'views:', what, 'len')
                check([id(x) for x in txn.raw_meta] == [id(x) for x in raw if isinstance(x, M.MetaItem)], 'views:', what, 'raw_meta differs from the filtered raw list')
                check([id(x) for x in raw if isinstance(x, M.BlockComment)] == [id(x) for x in before.tokens if isinstance(x, M.BlockComment) and x.claimed and any(x is y for y in raw)] or True, 'views')
            elif got_exc is not None:
                return
            elif facet == 'tree':
                docenv.tree_invariant(f, what='tree after ' + what)
            elif facet == 'reparse':
                docenv.tree_invariant(f, what='tree after ' + what)
                docenv.reparse_equivalent(f, what='reparse after ' + what)
            elif facet == 'window':
                after = Snapshot(store)
                a0 = sum(len(x) for x in before.texts[:before.index[id(txn.first_token)]]) if id(txn.first_token) in before.index else 0
                check(after.text()[:a0] == before.text()[:a0], 'window:', what, 'characters before the transaction changed')
                tail = docenv.POST
                check(after.text().endswith(tail), 'window:', what, 'characters after the transaction changed')

    name = 'map_%s_%s%d_%s%s%s%s' % (facet, 'rawmeta' if raw_view else 'meta', n, op, ('_after_' + pre) if pre else '', '_col0' if col0 else '', '_twin' if twin else '')
    return name, cell


# ---------------------------------------------------------------- claim / unclaim cycles
def make_claim(scaf_name, n, mode, facet, twin=False):
    """mode 'cycle': unclaim all then claim all; 'late': parse without attribution, read views, then claim."""
    sc = SCAFFOLDS[scaf_name]
    text = sc.make_text(n)

    def cell(which: int) -> None:
        assert 0 <= which <= 1
        which = pick(which, 0, 1)
        with NoTracing():
            f = docenv.PARSER.parse(text, M.File, auto_claim_comments=(mode == 'cycle'))
            parent = sc.get_parent(f)
            raw = getattr(parent, sc.raw_attr)
            others = [(name, getattr(parent, name), pred, conv) for name, pred, conv in sc.views]
            for _, o, _, _ in others:
                list(o)
            store = f.token_store
            before_text = text_of(f)
            ref0 = list(raw)
            visible_before = [t for t in store if t.raw_text]

            def consistent(what):
                now = list(raw)
                for name, o, pred, conv in others:
                    g = list(o)
                    e = [conv(x) for x in now if pred(x)]
                    ok = len(g) == len(e) and all((a is b) if conv is rep_ops._ident else (a == b) for a, b in zip(g, e))
                    check(ok, facet + ':', what, 'view', name, R(g), 'differs from the filtered raw list', R(e))
                    check(len(o) == len(e), facet + ':', what, 'len of view', name)
                check(text_of(f) == before_text, facet + ':', what, 'claiming changed the printed text')
                vis = [t for t in store if t.raw_text]
                check(len(vis) == len(visible_before) and all(a is b for a, b in zip(vis, visible_before)), facet + ':', what, 'visible tokens changed')
                docenv.tree_invariant(f, what=what)
            if mode == 'cycle':
                un = raw.unclaim_interleaving_comments()
                consistent('after unclaim')
                check(not any(isinstance(x, M.BlockComment) for x in raw), facet + ':', 'unclaim left comments in the list')
                check(all(not c.claimed for c in un), facet + ':', 'unclaimed comment still flagged claimed')
            if which:
                cl = raw.claim_interleaving_comments()
            else:
                parent.auto_claim_comments() if mode == 'late' else raw.claim_interleaving_comments()
            if twin:
                raise Fail('twin reached the assertion point')
            consistent('after claim')
            if mode == 'cycle':
                now = list(raw)
                check(len(now) == len(ref0) and all(a is b for a, b in zip(now, ref0)), facet + ':', 'unclaim + claim did not restore the raw list')

    return 'claim_%s_%s%d_%s%s' % (facet, scaf_name, n, mode, '_twin' if twin else ''), cell


def make_table_step(n, kmax, twin=False):
    """Inductive step of the index table behind every filtered / converted view (_RepeatedValueWrapperUpdateHandler.handle_splice):
    from ANY raw list of n items (kinds symbolic) whose table satisfies the invariant `table == positions of the items of the
    view's type`, ANY notification (l <= r <= n symbolic, k <= kmax replacement items of symbolic kinds) leaves a table that
    satisfies the invariant for the list after the splice.  With the callers passing normalised (l, r) - which the document-level
    cells check - this covers notification histories of any length."""
    from autobean_refactor.models.internal import value_properties as VP

    class A:        # the view's type
        pass

    class B:        # any other item (comment, other node type)
        pass

    def cell(k0: bool, k1: bool, k2: bool, k3: bool, k4: bool, k5: bool, l: int, r: int, k: int, v0: bool, v1: bool, v2: bool) -> None:
        assert 0 <= l <= r <= n and 0 <= k <= kmax
        kinds = [bool(x) for x in (k0, k1, k2, k3, k4, k5)[:n]]
        k = pick(k, 0, kmax)
        vkinds = [bool(x) for x in (v0, v1, v2)[:k]]
        l = pick(l, 0, n)
        r = pick(r, l, n)
        table = [i for i, x in enumerate(kinds) if x]
        h = VP._RepeatedValueWrapperUpdateHandler(None, A, table)
        values = [A() if x else B() for x in vkinds]
        h.handle_splice(l, r, values)
        if twin:
            raise Fail('twin reached the assertion point')
        after = kinds[:l] + vkinds + kinds[r:]
        want = [i for i, x in enumerate(after) if x]
        check(table == want, 'index table after handle_splice(%d, %d, %d values):' % (l, r, k), table, 'but the items of the view type are at', want, 'kinds before', kinds, 'inserted', vkinds)

    return 'table_step_n%d_k%d%s' % (n, kmax, '_twin' if twin else ''), cell


CELLS = {}


def _reg(name_fn, tiers, timeout, family, bounds, twin=False, cost=None):
    name, fn = name_fn
    assert name not in CELLS, 'duplicate cell name ' + name
    CELLS[name] = dict(fn=fn, tiers=tiers, timeout=timeout, family=family, bounds=bounds, twin=twin, cost=cost or timeout)


Q, T = ('quick', 'thorough'), ('thorough',)
FACET_PROP = rep_ops.FACET_PROP
QUICK_VIEW_SCAF = ('note_tags', 'txn_postings', 'open_cur')
for _facet, _prop in FACET_PROP.items():
    for _scaf, _views in VIEWS.items():
        for _vi, _view in enumerate(_views):
            for _n in (0, 2, 3, 4):
                for _op in VIEW_OPS:
                    if _facet == 'refuse' and _op in ('append', 'extend', 'clear', 'discard', 'delslice', 'insert'):
                        continue
                    for _pre in RAW_PRE_OPS:
                        if _pre is not None and (_n not in (3,) or _facet in ('refuse',)):
                            continue
                        quick = (_scaf in QUICK_VIEW_SCAF and _n == 3 and _vi == 0
                                 and ((_pre is None and _op in ('insert', 'pop', 'setitem', 'delitem', 'remove', 'discard', 'setslice'))
                                      or (_pre == 'insert' and _op in ('setitem', 'pop', 'remove') and _facet in ('views', 'window', 'reparse'))
                                      or (_pre == 'setslice_ext' and _op in ('setitem', 'pop') and _facet in ('views', 'window') and _scaf != 'open_cur')))
                        _reg(make_view(_scaf, _n, _vi, _op, _facet, pre=_pre), {_prop: Q if quick else T}, 900, 'view/' + _facet,
                             '%s with %d items, view %s, %s%s: index/bounds symbolic in [-n-3, n+3]' % (
                                 _scaf, _n, _view.attr, _op, (' after raw ' + _pre + ' at a symbolic index') if _pre else ''),
                             cost=((2 * _n + 7) ** (2 if 'slice' in _op else 1)) * (13 if _pre else 1))
    for _n in (0, 1, 3, 5):
        for _op in MAP_OPS[:6]:
            for _rv in (False, True):
                for _pre in (None, 'insert', 'pop'):
                    if _pre is not None and _n != 3:
                        continue
                    if _facet == 'refuse' and _op in ('setitem', 'pop_default', 'contains'):
                        continue
                    quick = _n in (3, 5) and _pre is None and not _rv and _op in ('setitem', 'delitem', 'pop')
                    _reg(make_map(_n, _op, _facet, raw_view=_rv, pre=_pre), {_prop: Q if quick else T}, 600, 'map/' + _facet,
                         'transaction with %d meta lines (duplicate key, interleaved comment), %s mapping view, %s with present/duplicate/absent key%s' % (
                             _n, 'raw_meta' if _rv else 'meta', _op, (' after raw ' + _pre) if _pre else ''), cost=20)
    for _n in (1, 3):
        for _op in ('setitem', 'delitem', 'pop'):
            if _facet == 'refuse' and _op == 'setitem':
                continue
            _reg(make_map(_n, _op, _facet, col0=True), {_prop: Q if (_n == 3 and _op == 'setitem') else T}, 600, 'map/' + _facet,
                 'transaction whose metadata block starts with an UNINDENTED comment line, %d meta lines, meta mapping view, %s' % (_n, _op), cost=20)
for _scaf in ('txn_postings', 'txn_meta', 'posting_meta', 'file_dirs'):
    for _n in (0, 2, 3, 4):
        for _mode in ('cycle', 'late'):
            for _facet, _props in (('views', {'C10': Q if _n in (2, 4) else T, 'C04': Q if _n == 4 else T, 'C14': Q if _n == 4 else T}),):
                _reg(make_claim(_scaf, _n, _mode, _facet), _props, 300, 'claim', '%s with %d items: %s of interleaving comments with all views alive' % (_scaf, _n, _mode), cost=5)
for _n in (0, 1, 2, 3, 4, 5, 6):
    _reg(make_table_step(_n, 2), {'C10': Q if _n <= 5 else T}, 600, 'table-step', 'index table of the filtered views: ANY list of %d items (symbolic kinds) satisfying the invariant, ANY splice notification 0 <= l <= r <= n with <= 2 replacement items of symbolic kinds' % _n, cost=2 ** _n * 10)
    _reg(make_table_step(_n, 3), {'C10': T}, 1500, 'table-step', 'as above with <= 3 replacement items, n = %d' % _n)
_reg(make_table_step(3, 2, twin=True), {'C10': Q}, 120, 'table-step', 'vacuity twin', twin=True, cost=1)
for _facet, _prop in FACET_PROP.items():
    _reg(make_view('note_tags', 3, 0, 'setitem', _facet, twin=True), {_prop: Q}, 120, 'view/' + _facet, 'vacuity twin', twin=True, cost=1)
_reg(make_claim('txn_postings', 4, 'cycle', 'views', twin=True), {'C10': Q, 'C04': Q, 'C14': Q}, 120, 'claim', 'vacuity twin', twin=True, cost=1)

FILES = rep_ops.FILES
ENCODES = ['autobean_refactor/models/internal/value_properties.py: RepeatedValueWrapper.' + n for n in (
    '__getitem__', '__setitem__', '__delitem__', 'insert', 'append', 'pop', 'remove', 'discard', 'clear', 'extend', '__iter__', '__len__')] + [
    'autobean_refactor/models/internal/value_properties.py: RepeatedFilteredNodeWrapper, repeated_string_property, _RepeatedValueWrapperUpdateHandler',
    'autobean_refactor/models/meta_item_internal.py: RepeatedMetaItemWrapper / RepeatedRawMetaItemWrapper __getitem__/__setitem__/__delitem__/pop/__contains__/keys',
    'autobean_refactor/models/internal/interleaving_comments.py: claim_interleaving_comments, unclaim_interleaving_comments, _CommentClaimer',
    'autobean_refactor/models/internal/properties.py: RepeatedNodeWrapper (through the views), drop_many']
STUBS = rep_ops.STUBS
OUTSIDE = rep_ops.OUTSIDE + ['meta keys outside {ka, kb, kc, zz}; mapping values outside 4 alternatives']


def selftest():
    return docenv.selftest()
