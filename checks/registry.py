"""Which harness modules serve which property, with per-tier wall budgets (s) for *starting* cells."""

_STORE_NOTE = ('Trusted: CrossHair\'s interpreter model of Python and z3. Bounds: load factors 2..5, <= 3 blocks, <= 2 inserted '
               '(<= 7 in split cells) tokens, one operation from every reachable block layout (inductive step with the full '
               'representation invariant) - larger stores and load factors are outside the claim.')

PROPERTIES = {
    'C07': {
        'modules': ['harness.c07_store'],
        'budget': {'quick': 900, 'thorough': 3000},
        'level_text': 'Bounded symbolic model checking of the real TokenStore: for every reachable block layout within the bound, one '
                      'arbitrary splice-class operation (symbolic range, API variant, inserted tokens) is executed symbolically and '
                      'the result is compared with a plain list plus the full representation invariant, which makes the step inductive '
                      'over histories of any length.',
        'level_note': _STORE_NOTE + ' Every query is asked before the operation as well (memoised state belongs to the pre-state); hist2 cells: two operations with no query in between.',
    },
    'C08': {
        'modules': ['harness.c07_store', 'harness.c02_tokens'],
        'budget': {'quick': 900, 'thorough': 3000},
        'level_text': 'Same inductive-step cells with symbolic token extents (unbounded non-negative line/column integers, newline-bearing '
                      'tokens at symbolic places) and raw_text updates with symbolic Unicode texts; get_position/get_index are compared '
                      'with an independent fold over the extents, and text->extent is proven by lemma cells over all short strings.',
        'level_note': _STORE_NOTE + ' Extents rather than texts are symbolic in step cells; the lemma cells connect the two.',
    },
}

PROPERTIES['C12'] = {
    'modules': ['harness.c12_tokens'],
    'budget': {'quick': 900, 'thorough': 3000},
    'level_text': 'Bounded symbolic checking of every token class\'s real codec: the text is a tuple of symbolic Unicode code points '
                  '(every string up to the length bound), the class\'s own terminal regex decides lexeme-hood, and from_raw_text / '
                  'value / from_value / setters are executed symbolically and compared (round trip, single-lexeme, text kept verbatim).',
    'level_note': 'Trusted: CrossHair, z3, symre (validated against re on every run). Strings <= 7 code points; value->text of Date and '
                  'Number only on solver-enumerated boundary witnesses (format() is a realisation boundary).',
}

_DOC_NOTE = ('Trusted: CrossHair, z3, the real parser for building scaffolds (untraced). Bounds: scaffold documents of 3 directives, '
             'repeated fields with <= 4 items, index/slice bounds in [-n-3, n+3], <= 3 donors, steps in {1,2,3,-1,-2}; one operation per '
             'cell (two in hist cells). Slot cells: every required / optional / unordered node slot and every stand-alone value property of every model '
             'of three scaffold documents (rich, sparse with falsy values, compact without blanks), donors = nodes found in the same slot of the same class. '
             'Every attribute and view of every model is read once before the edit (memoised state is part of the pre-state). '
             'Larger documents, longer histories and other templates are outside the claim.')
_DOC_TEXT = ('Bounded symbolic checking of the real editing API on parsed scaffold documents: operation arguments (indexes, slice bounds, '
             'donor counts/kinds, op codes) are symbolic over a stated box, CrossHair exhausts every path of the real code and z3 decides '
             'each branch; the oracle is independent (%s).')

PROPERTIES['C10'] = {
    'modules': ['harness.rep_ops', 'harness.view_ops', 'harness.slot_ops'], 'budget': {'quick': 900, 'thorough': 3300},
    'level_text': _DOC_TEXT % 'a plain Python list subjected to the same operation; every filtered/converted view recomputed from it',
    'level_note': _DOC_NOTE,
}
PROPERTIES['C03'] = {
    'modules': ['harness.rep_ops', 'harness.view_ops', 'harness.slot_ops'], 'budget': {'quick': 900, 'thorough': 3300},
    'level_text': _DOC_TEXT % 'token-identity window between snapshots: only the child and adjacent separators may change, inside the parent',
    'level_note': _DOC_NOTE,
}
PROPERTIES['C05'] = {
    'modules': ['harness.rep_ops', 'harness.view_ops', 'harness.c17_spacing', 'harness.claim_hist', 'harness.slot_ops'], 'budget': {'quick': 900, 'thorough': 3300},
    'level_text': _DOC_TEXT % 'a generic walker over the field descriptors checking store membership, span nesting/order/disjointness and leaf ownership',
    'level_note': _DOC_NOTE,
}
PROPERTIES['C06'] = {
    'modules': ['harness.rep_ops', 'harness.view_ops', 'harness.slot_ops', 'harness.c13_numexpr'], 'budget': {'quick': 900, 'thorough': 3300},
    'level_text': _DOC_TEXT % 're-parse of the printed text compared with a semantic dump of the edited model',
    'level_note': _DOC_NOTE + ' The re-parse speaks for the concrete text of each path; besides the structural dump, every value-level property of every model and the value of every token are compared between the edited model and the re-parse, and every token\'s value must be what its text means. Known finding: see known_findings.json.',
}
PROPERTIES['C19'] = {
    'modules': ['harness.rep_ops', 'harness.view_ops', 'harness.c09_values', 'harness.c07_store', 'harness.slot_ops', 'harness.claim_hist'], 'budget': {'quick': 900, 'thorough': 3300},
    'level_text': _DOC_TEXT % 'text, token identities and identity-level tree dump before vs after every refused call',
    'level_note': _DOC_NOTE,
}

PROPERTIES['C13'] = {
    'modules': ['harness.c13_numexpr'], 'budget': {'quick': 900, 'thorough': 3300},
    'level_text': 'Exhaustive solver-driven enumeration of operand shapes x operators x operand kinds x attachment (CrossHair path tree '
                  'exhausted over the symbolic selectors), each combination executed on the real NumberExpr code and compared with decimal '
                  'arithmetic, an independent evaluator of the printed text and a re-parse; operands and their documents compared before/after.',
    'level_note': 'Finite configuration space (20 shapes incl. literals of 30 significant digits, 5 scalars, 4 operators, 3 modes, 4 attachments; chains of <= 2; '
                  'edits of a number token / parenthesis content inside an expression with every value read before and after); numeric literals are concrete. Trusted: CrossHair path exhaustion, decimal, the 30-line evaluator.',
}

PROPERTIES['C09'] = {
    'modules': ['harness.c09_values'], 'budget': {'quick': 900, 'thorough': 3300},
    'level_text': _DOC_TEXT % 'read-back, a dictionary of all other value properties before/after, a record-of-optionals model for the cost and payee/narration groups, and the same readings on the re-parsed text',
    'level_note': _DOC_NOTE + ' Property ordinals and value choices are found by introspection of the descriptor objects, so new properties are covered automatically.',
}

PROPERTIES['C17'] = {
    'modules': ['harness.c17_spacing'], 'budget': {'quick': 900, 'thorough': 3300},
    'level_text': _DOC_TEXT % 'an index walk over a snapshot of the token list for the getter; character-level and identity-level comparison of the document for the setter',
    'level_note': 'Seven templates (blank / whitespace-only lines, CRLF, trailing blanks, missing final newline, nested postings and meta, neighbours without a blank); selector cells: spacing strings of <= 3 units from {SP, TAB, LF, CRLF, CRCRLF}, every model and token; text cells: EVERY in-domain string of <= 5 symbolic code points (the module\'s regex interpreted by symre) on representative models; after an assignment every model re-reads its adjacent run. Trusted: CrossHair path exhaustion over the selectors.',
}

PROPERTIES['C02'] = {
    'modules': ['harness.c02_tokens'], 'budget': {'quick': 900, 'thorough': 3300},
    'level_text': 'Bounded symbolic checking of token assignments inside parsed multi-block documents: token ordinal and assignment kind are '
                  'symbolic, the new text contains 2 symbolic Unicode code points kept inside the type\'s lexical domain by its own terminal '
                  'regex; the printed text must equal the input with exactly that span replaced and all other tokens keep identity, order and text.',
    'level_note': 'Five documents (<= 60 tokens, load factor 4), replacement = frame + 2 code points, <= 2 assignments. Trusted: CrossHair, z3, symre.',
}

_SEL_NOTE = ('Finite configuration space enumerated exhaustively through the solver (CrossHair path tree exhausted over the symbolic '
             'selectors); each configuration runs the real code natively. Four documents covering every directive class; one edit / '
             'perturbation (two non-editing operations in thorough). Other documents and longer sequences are outside the claim.')
PROPERTIES['C11'] = {
    'modules': ['harness.tree_props', 'harness.c13_numexpr'], 'budget': {'quick': 1200, 'thorough': 3300},
    'level_text': 'Solver-enumerated configurations (attribution mode x every tree model at any depth x one edit on either side): the deep copy must be equal, '
                  'print the spanned text, share no token, be a complete tree in its own store, and neither side may be affected by an edit of the other.',
    'level_note': _SEL_NOTE,
}
PROPERTIES['C20'] = {
    'modules': ['harness.tree_props', 'harness.c13_numexpr'], 'budget': {'quick': 1200, 'thorough': 3300},
    'level_text': 'Solver-enumerated pairs: same text parsed twice, copy vs original, and copy perturbed by exactly one token text / child / comment '
                  'ownership change at a symbolic place: equal exactly when unperturbed, symmetric, hash-consistent for tokens.',
    'level_note': _SEL_NOTE,
}
PROPERTIES['C04'] = {
    'modules': ['harness.tree_props', 'harness.view_ops', 'harness.claim_hist'], 'budget': {'quick': 1200, 'thorough': 3300},
    'level_text': 'Solver-enumerated sequences of non-editing operations (attribute reads found by introspection, views, ==, hash, deepcopy, print, '
                  'claim/unclaim/auto-claim) on every model of each document: printed text and the identity/order/text of visible tokens must not change.',
    'level_note': _SEL_NOTE,
}

PROPERTIES['C14'] = {
    'modules': ['harness.c14_comments', 'harness.view_ops', 'harness.claim_hist'], 'budget': {'quick': 1500, 'thorough': 3300},
    'level_text': 'Solver-enumerated layouts (every sequence of up to 5-6 lines over 10 line kinds that the grammar accepts) and claim/unclaim/auto-claim '
                  'call sequences: ownership uniqueness and the claimed flag from a generic walk, no unowned comment after default parsing, idempotence, '
                  'parse-time == later attribution, unclaim+claim restores, and the documented leading/trailing/standalone order against a reference '
                  'computed from the text geometry.',
    'level_note': _SEL_NOTE + ' The documented order is asserted only where docs/special/comments.md is unambiguous (same indentation read as indentation class, as beancount does).',
}

PROPERTIES['C15'] = {
    'modules': ['harness.c15_construct'], 'budget': {'quick': 1500, 'thorough': 3300},
    'level_text': 'Solver-enumerated constructor argument combinations for every class with from_value (arguments read from the real signatures; every '
                  'subset of optional parts, empty/multi-element lists, strings needing escapes, negative numbers, nested constructed children, custom '
                  'value sequences): the printed text parses as the type, the parsed dump equals the constructed dump, and the tree invariant holds.',
    'level_note': _SEL_NOTE.replace('Four documents covering every directive class; one edit / perturbation (two non-editing operations in thorough).', 'Alternatives per argument are listed in harness/c15_construct.py.'),
}

PROPERTIES['C18'] = {
    'modules': ['harness.c18_indent'], 'budget': {'quick': 1200, 'thorough': 3300},
    'level_text': 'Solver-enumerated configurations (parent kind x existing meta layout incl. a leading claimed comment x indent_by strings of 1..3 SP/TAB units x '
                  'posting indent x insertion route): the created item\'s indent is compared with the documented rule, raw nodes must keep theirs, every '
                  'existing line keeps its leading blanks, and the result re-parses with the new item under the same parent.',
    'level_note': _SEL_NOTE.replace('Four documents covering every directive class; one edit / perturbation (two non-editing operations in thorough).', 'Eight parent kinds, five layouts, eight routes.'),
}

PROPERTIES['C01'] = {
    'modules': ['harness.c01_parse'], 'budget': {'quick': 1500, 'thorough': 3300},
    'level_text': 'Bounded symbolic execution of the REAL parser on symbolic text: a minimal template with 1-2 symbolic Unicode code points inserted at '
                  'every between-token offset (and whole texts of <= 3 code points), lexed by the grammar\'s own terminal regexes (symre), parsed by '
                  'lark\'s LALR driver, PostLex and ModelBuilder; print == text, store == text, every sub-model prints the slice it spans.',
    'level_note': 'Trusted: CrossHair, z3, symre (validated against re on every run). Eight minimal templates (<= 40 characters), hole <= 2 code points '
                  '(second from the trivia alphabet), whole texts <= 3 code points; both attribution modes; parse targets File and the template\'s own class.',
}

PROPERTIES['C16'] = {
    'modules': ['harness.c16_editor'], 'budget': {'quick': 1500, 'thorough': 3300},
    'level_text': 'Bounded symbolic execution of the REAL editor (edit_file / edit_file_recursive with the real parser, printer, pathlib, glob algorithm and '
                  'os.path functions) on an in-memory POSIX file system whose system calls follow their documented contract (text-mode newline translation '
                  'included): (a) solver-enumerated scenarios - include graph x entry-path spelling x line-ending pattern x subset edited x entry removed x entry '
                  'added/replaced x body raising - against an oracle computed from the initial disk contents; (b) the file TEXT itself symbolic (one free Unicode '
                  'code point inserted on disk, through modelled read, real lexer/parser, edit, print, modelled write). Counterexamples are replayed on a real directory.',
    'level_note': 'Trusted: CrossHair, z3, symre, and the file-system model (validated against a real directory on every run). 10 include graphs (nesting, globs, '
                  'recursive globs, cycles, diamond, respelled and overlapping includes), 7 spellings of the entry path, 5 line-ending patterns; two blocks run by the same Editor; one entry removed/added '
                  'per block; one free character per file. Symlinks, permissions, encodings other than UTF-8 and I/O failures are outside the claim.',
}

NOT_APPLICABLE = {}
