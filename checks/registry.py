"""Which harness modules serve which property, with per-tier wall budgets (s) for *starting* cells."""

_STORE_NOTE = ('Trusted: CrossHair\'s interpreter model of Python and z3. Bounds: load factors 2..5, <= 3 blocks, <= 2 inserted '
               '(<= 7 in split cells) tokens, one operation from every reachable block layout (inductive step with the full '
               'representation invariant) - larger stores and load factors are outside the claim.')

PROPERTIES = {
    'C07': {
        'modules': ['harness.c07_store'],
        'budget': {'quick': 900, 'thorough': 3000},
        'level_text': 'Bounded symbolic model checking of the real TokenStore: for every reachable block layout within the bound, one '
                      'arbitrary splice-class operation (symbolic range, API variant, inserted tokens) is executed symbolically and '
                      'the result is compared with a plain list plus the full representation invariant, which makes the step inductive '
                      'over histories of any length.',
        'level_note': _STORE_NOTE,
    },
    'C08': {
        'modules': ['harness.c07_store'],
        'budget': {'quick': 900, 'thorough': 3000},
        'level_text': 'Same inductive-step cells with symbolic token extents (unbounded non-negative line/column integers, newline-bearing '
                      'tokens at symbolic places) and raw_text updates with symbolic Unicode texts; get_position/get_index are compared '
                      'with an independent fold over the extents, and text->extent is proven by lemma cells over all short strings.',
        'level_note': _STORE_NOTE + ' Extents rather than texts are symbolic in step cells; the lemma cells connect the two.',
    },
}

PROPERTIES['C12'] = {
    'modules': ['harness.c12_tokens'],
    'budget': {'quick': 900, 'thorough': 3000},
    'level_text': 'Bounded symbolic checking of every token class\'s real codec: the text is a tuple of symbolic Unicode code points '
                  '(every string up to the length bound), the class\'s own terminal regex decides lexeme-hood, and from_raw_text / '
                  'value / from_value / setters are executed symbolically and compared (round trip, single-lexeme, text kept verbatim).',
    'level_note': 'Trusted: CrossHair, z3, symre (validated against re on every run). Strings <= 7 code points; value->text of Date and '
                  'Number only on solver-enumerated boundary witnesses (format() is a realisation boundary).',
}

NOT_APPLICABLE = {
    'C16': 'The property is about the operating system and C io layer behind editor.py (text-mode newline translation, pathlib/glob/'
           'os.unlink/os.makedirs, mtimes): none of it can be executed symbolically by CrossHair or encoded for z3, CrossHair forbids '
           'file writes during analysis, and an in-memory filesystem model would decide the property of the model, not of the code.',
}
