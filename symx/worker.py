"""One worker process: analyse (symbolically) or replay (natively) cells of one harness module.

usage:
  worker.py analyze <module> <cond_timeout_s> <path_timeout_s> <cell> [<cell> ...]
  worker.py replay  <module> <cell> <json-args>

Prints one line 'RESULT <json>' per cell on stdout.  Everything else goes to stderr.
The repository under test is taken from $SYMX_REPO (default /repo) and put first on sys.path,
so every run analyses the current working tree.
"""
import collections
import importlib
import json
import os
import re
import sys
import time
import traceback

REPO = os.environ.get('SYMX_REPO', '/repo')
VERIF = os.path.dirname(os.path.dirname(os.path.abspath(__file__)))
for p in (VERIF, REPO):
    if p in sys.path:
        sys.path.remove(p)
sys.path.insert(0, VERIF)
sys.path.insert(0, REPO)
sys.setrecursionlimit(20000)

_CALL_RE = re.compile(r'when calling (\w+)\((.*)\)\s*$', re.S)


def _parse_args(message: str, fn=None):
    m = _CALL_RE.search(message.strip())
    if not m:
        return None
    try:
        def collect(*a, **k):
            return a, k
        a, k = eval('collect(%s)' % m.group(2), {'__builtins__': {}},
                    {'collect': collect, 'True': True, 'False': False, 'None': None})
        if a:
            import inspect
            names = list(inspect.signature(fn).parameters)
            k.update(dict(zip(names, a)))
        return k
    except Exception:
        return None


def _install_solver_counter(stats):
    import z3
    orig = z3.Solver.check

    def check(self, *a, **k):
        t0 = time.perf_counter()
        try:
            return orig(self, *a, **k)
        finally:
            stats['solver_queries'] += 1
            stats['solver_s'] += time.perf_counter() - t0
    z3.Solver.check = check


def analyze(modname, cond_timeout, path_timeout, cells):
    from crosshair.core_and_libs import analyze_function, run_checkables, AnalysisKind, MessageType
    from crosshair.options import AnalysisOptionSet
    stats = collections.Counter()
    _install_solver_counter(stats)
    mod = importlib.import_module(modname)
    for cell in cells:
        t0 = time.perf_counter()
        c0 = time.process_time()
        q0, s0 = stats['solver_queries'], stats['solver_s']
        out = {'cell': cell, 'module': modname}
        try:
            spec = mod.CELLS[cell]
            fn = spec['fn']
            assert fn.__name__ == fn.__code__.co_name, 'renamed cell functions hide assertion failures from CrossHair'
            ct = float(spec.get('timeout', cond_timeout)) if cond_timeout <= 0 else cond_timeout
            counter = collections.Counter()
            opts = AnalysisOptionSet(
                analysis_kind=[AnalysisKind.PEP316 if spec.get('kind') == 'pep316' else AnalysisKind.asserts],
                per_condition_timeout=ct,
                per_path_timeout=path_timeout,
                report_all=True,
                max_uninteresting_iterations=sys.maxsize,
                stats=counter,
            )
            msgs = run_checkables(analyze_function(fn, opts))
            out['paths'] = counter.get('num_paths', 0)
            states = [m.state for m in msgs]
            out['messages'] = [{'state': m.state.value, 'message': m.message[:2000]} for m in msgs]
            bad = [m for m in msgs if m.state in (MessageType.POST_FAIL, MessageType.EXEC_ERR, MessageType.POST_ERR, MessageType.PRE_INVALID if hasattr(MessageType, 'PRE_INVALID') else MessageType.POST_ERR)]
            if bad:
                out['status'] = 'refuted'
                out['cex'] = _parse_args(bad[0].message, fn)
                out['cex_message'] = bad[0].message[:2000]
                out['cex_traceback'] = (bad[0].traceback or '')[-3000:]
            elif MessageType.PRE_UNSAT in states:
                out['status'] = 'pre_unsat'
            elif states and all(s == MessageType.CONFIRMED for s in states):
                out['status'] = 'confirmed'
            elif MessageType.CANNOT_CONFIRM in states:
                out['status'] = 'unknown'
            else:
                out['status'] = 'error'
                out['detail'] = 'unexpected message states: %r' % [s.value for s in states]
        except BaseException as e:  # harness import/analysis crashed
            out['status'] = 'error'
            out['detail'] = ''.join(traceback.format_exception(type(e), e, e.__traceback__))[-4000:]
        out['wall_s'] = round(time.perf_counter() - t0, 3)
        out['cpu_s'] = round(time.process_time() - c0, 3)
        out['solver_queries'] = stats['solver_queries'] - q0
        out['solver_s'] = round(stats['solver_s'] - s0, 3)
        print('RESULT ' + json.dumps(out), flush=True)


def replay(modname, cell, args_json):
    os.environ['SYMX_NATIVE'] = '1'
    out = {'cell': cell, 'module': modname}
    try:
        mod = importlib.import_module(modname)
        fn = mod.CELLS[cell]['fn']
        args = json.loads(args_json)
        out['args'] = args
        try:
            r = fn(**args)
            out['returned'] = repr(r)
            out['reproduced'] = (r is False)
            out['detail'] = 'cell returned %r' % (r,)
        except Exception as e:
            out['reproduced'] = True
            out['detail'] = ''.join(traceback.format_exception(type(e), e, e.__traceback__))[-4000:]
        describe = mod.CELLS[cell].get('describe')
        if describe is not None:
            try:
                out['description'] = describe(**args)
            except Exception as e:
                out['description'] = 'describe() failed: %r' % (e,)
    except BaseException as e:
        out['reproduced'] = None
        out['detail'] = 'replay harness error: ' + ''.join(traceback.format_exception(type(e), e, e.__traceback__))[-4000:]
    print('RESULT ' + json.dumps(out), flush=True)


if __name__ == '__main__':
    if sys.argv[1] == 'analyze':
        analyze(sys.argv[2], float(sys.argv[3]), float(sys.argv[4]), sys.argv[5:])
    elif sys.argv[1] == 'replay':
        replay(sys.argv[2], sys.argv[3], sys.argv[4])
    else:
        sys.exit('bad mode')
