"""Regenerates MANIFEST.json from checks/registry.py (python3 symx/manifest_gen.py)."""
import json
import os
import sys

VERIF = os.path.dirname(os.path.dirname(os.path.abspath(__file__)))
sys.path.insert(0, VERIF)
from checks import registry  # noqa: E402

ALL = ['C%02d' % i for i in range(1, 21)]
BASELINE = "cd /repo && /venv/bin/python -m pytest -ra -q -p no:cacheprovider --timeout=900 --continue-on-collection-errors"

checks = []
for pid in ALL:
    info = registry.PROPERTIES.get(pid)
    if not info or not info.get('claimed', True):
        continue
    checks.append({
        'property_id': pid,
        'quick_cmd': './check %s --tier quick' % pid,
        'thorough_cmd': './check %s --tier thorough' % pid,
        'evidence_file': '/verif/evidence/%s.json' % pid,
        'replay_cmd_template': '.venv/bin/python symx/replay_file.py {path}',
        'engine': 'symx',
        'level_claimed': {
            'category': 'model_checking',
            'text': info['level_text'],
            'design_ref': info.get('design_ref', 'DESIGN.md section 5, ' + pid),
        },
        'level_note': info['level_note'],
        'technique': info.get('technique', 'bounded symbolic execution of the real code (CrossHair) with z3 deciding every path; counterexamples replayed natively'),
    })

na = []
for pid in ALL:
    info = registry.PROPERTIES.get(pid)
    if info and info.get('claimed', True):
        continue
    na.append({'property_id': pid, 'reason': registry.NOT_APPLICABLE.get(pid, 'check not built yet in this session (design in DESIGN.md section 5); not claimed')})

manifest = {
    'version': 1,
    'setup_cmd': 'sh symx/boot.sh',
    'hooks': {
        'guard': 'none - no source hooks are needed (harnesses patch module globals of the imported repo at run time)',
        'enable': 'not applicable: every check imports /repo\'s current working tree (SYMX_REPO, default /repo) first on sys.path',
        'baseline_off_cmd': BASELINE,
        'source_commits': [],
        'add_only': True,
    },
    'engines': [{
        'name': 'symx',
        'path': '/verif/symx',
        'serves_properties': [c['property_id'] for c in checks],
        'kind_free_text': 'CrossHair 0.0.110 symbolic execution of the repository\'s real Python code, z3 5.1.0 as the deciding solver; '
                          'cells = small harness functions with symbolic ints/bools/code points; native replay of every counterexample',
    }],
    'checks': checks,
    'not_applicable': na,
    'notes': 'Genuine defects found by the checks were repaired in /repo as "fix:" commits and are listed in known_findings.json (fixed:); three defects whose repair is not small are recorded there as findings (C01, C06, C14) and are printed as KNOWN-FINDING lines by their checks.',
}
with open(os.path.join(VERIF, 'MANIFEST.json'), 'w') as f:
    json.dump(manifest, f, indent=1)
print('checks:', [c['property_id'] for c in checks], 'n/a:', [n['property_id'] for n in na])
