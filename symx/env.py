"""Shared harness environment: repo import path, load-factor control, printing, native/symbolic helpers."""
import io
import os
import sys

NATIVE = os.environ.get('SYMX_NATIVE') == '1'

from crosshair.tracers import NoTracing, ResumedTracing  # noqa: E402
from crosshair import realize  # noqa: E402

from autobean_refactor import token_store as ts  # noqa: E402


def set_load_factor(lf: int) -> None:
    """The store's block size is a set of module globals read at call time."""
    ts._LOAD_FACTOR = lf
    ts._DOUBLE_LOAD_FACTOR = lf * 2
    ts._HALF_LOAD_FACTOR = lf // 2
    ts._ONE_HALF_LOAD_FACTOR = lf + lf // 2


def print_model(m) -> str:
    """What the REAL printer writes for the model."""
    from autobean_refactor import printer
    return printer.print_model(m, io.StringIO()).getvalue()


class Fail(Exception):
    """Raised by a cell when the property is violated (message = what differs).

    Deliberately NOT an AssertionError: CrossHair's asserts mode treats assertion errors raised before the
    first body line as unmet preconditions; any other exception is always reported."""


def check(cond, *what):
    """`what` items are formatted with repr only when the check fails (formatting a symbolic string forks paths)."""
    if not cond:
        raise Fail(' '.join(w if isinstance(w, str) and not _is_symbolic(w) else _safe_repr(w) for w in what))


def _is_symbolic(w):
    return type(w).__module__.startswith('crosshair') if not NATIVE else False


def _safe_repr(w):
    try:
        return repr(w)
    except Exception:
        return '<unprintable>'


class R:
    """Marks a value to be shown with repr in a failure message (evaluated lazily)."""
    __slots__ = ('v',)

    def __init__(self, v):
        self.v = v

    def __repr__(self):
        return repr(self.v)


class Acc:
    """Branch-free accumulation of symbolic equalities: one solver question at the end instead of two per comparison.

    `bad + (x != y)` adds a symbolic 0/1 without forking the path.  In native replay every comparison is checked
    immediately so that the failing one is named."""
    def __init__(self):
        self.bad = 0
        self.first = None

    def eq(self, x, y, *what):
        if NATIVE:
            check(x == y, *what, x, y)
        else:
            self.bad = self.bad + (x != y)

    def done(self, *what):
        if self.bad != 0:
            raise Fail(' '.join(str(w) for w in what) or 'oracle mismatch')


def pick(x, lo, hi):
    """Concrete int equal to the symbolic x in [lo, hi]: binary case split by ordinary comparisons (log2 forks),
    after which list bookkeeping with the result costs no solver queries."""
    if NATIVE:
        return x
    while lo < hi:
        mid = (lo + hi) // 2
        if x <= mid:
            hi = mid
        else:
            lo = mid + 1
    return lo


def native(fn, *args, **kw):
    """Run a concrete computation untraced (native speed); arguments must be concrete."""
    with NoTracing():
        return fn(*args, **kw)


def _descriptor(cls, name):
    for k in cls.__mro__:
        if name in vars(k):
            return vars(k)[name]
    raise AttributeError(name)


def pset(obj, name, value):
    """obj.name = value through the class descriptor (CrossHair's patched builtin setattr() runs untraced)."""
    _descriptor(type(obj), name).__set__(obj, value)


def pget(obj, name):
    return _descriptor(type(obj), name).__get__(obj, type(obj))


_KNOWN = None
_KNOWN_SEEN = set()


def known_finding(fid):
    """True iff the committed known_findings.json lists finding `fid` (a recorded, unrepaired defect).  The harness then
    reports the hit on stderr (the runner turns it into a KNOWN-FINDING line) instead of failing, and keeps checking."""
    global _KNOWN
    if _KNOWN is None:
        import json
        path = os.path.join(os.path.dirname(os.path.dirname(os.path.abspath(__file__))), 'known_findings.json')
        try:
            with open(path) as f:
                _KNOWN = {x['id'] for x in json.load(f).get('findings', [])}
        except OSError:
            _KNOWN = set()
    if fid in _KNOWN:
        if fid not in _KNOWN_SEEN:
            _KNOWN_SEEN.add(fid)
            print('KNOWN-FINDING-HIT ' + fid, file=sys.stderr, flush=True)
        return True
    return False
