#!/bin/sh
# Idempotent bootstrap of the overlay venv: /venv's packages (lark, repo deps) + crosshair-tool from the offline wheelhouse.
set -e
cd "$(dirname "$0")/.."
if [ -x .venv/bin/python ] && .venv/bin/python -c 'import crosshair, lark, z3' 2>/dev/null; then
  exit 0
fi
rm -rf .venv
/venv/bin/python -m venv .venv
SP=$(.venv/bin/python -c 'import sysconfig; print(sysconfig.get_paths()["purelib"])')
printf '/venv/lib/python3.12/site-packages\n' > "$SP/_overlay.pth"
PIP_NO_INDEX=1 .venv/bin/pip install -q --no-index --find-links /opt/veriftools/wheels crosshair-tool
.venv/bin/python -c 'import crosshair, lark, z3'
