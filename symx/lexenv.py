"""Lexical environment: the grammar's own terminal regexes interpreted by symre (text stays symbolic).

`full(rule, s)` is lark's single-terminal `Parser.parse_token` acceptance: the first-priority match of the
terminal at position 0 consumes the whole text (a shorter first match leaves a second token or a lex error).
"""
import re

from symx import symre
from symx.env import NATIVE
from autobean_refactor import parser as parser_lib

PARSER = parser_lib.Parser()
TERMINALS = {t.name: t for t in PARSER._lark.parser.lexer_conf.terminals}
REGEXPS = {name: t.pattern.to_regexp() for name, t in TERMINALS.items()}
SYM = {name: symre.SymPattern(rx) for name, rx in REGEXPS.items()}
NATIVE_RE = {name: re.compile(rx) for name, rx in REGEXPS.items()}


def full(rule, s):
    if NATIVE:
        m = NATIVE_RE[rule].match(s)
        return m is not None and m.end() == len(s)
    r = SYM[rule].match_end(s, 0)
    return r is not None and r[0] == len(s)


def selftest(rules=None, extra=()):
    """symre must agree with `re` (match end at positions 0 and 1) on all strings of length <= 3 over a small
    alphabet that contains every character class the terminals distinguish, plus `extra` strings."""
    import itertools
    alphabet = ['a', 'Z', '0', ';', ' ', '\t', '\n', '\r', '"', '\\', '#', '-', ':', '\x0c', 'é', '.', ',', '/', '^', '*']
    texts = ['']
    for n in (1, 2, 3):
        texts += [''.join(t) for t in itertools.product(alphabet[:14] if n == 3 else alphabet, repeat=n)]
    texts += list(extra)
    bad = []
    count = 0
    for name in (rules or REGEXPS):
        sp, rx = SYM[name], NATIVE_RE[name]
        for t in texts:
            for pos in (0, 1):
                if pos > len(t):
                    continue
                m = rx.match(t, pos)
                r = sp.match_end(t, pos)
                count += 1
                if (m.end() if m else None) != (r[0] if r else None):
                    bad.append((name, t, pos))
                    if len(bad) > 5:
                        return False, 'symre disagrees with re: %r' % (bad,)
    return (not bad), ('%d comparisons' % count if not bad else 'symre disagrees with re: %r' % (bad,))
