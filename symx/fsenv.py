"""File-system environment for the editor (C16).

Two interchangeable worlds with the same interface:

* ModelWorld  -- used under symbolic execution.  An in-memory POSIX file system (regular files + directories, no
  symlinks) behind *private copies* of the stdlib modules `glob` and `pathlib` (loaded from their own source files) whose
  `os` / `io` globals are proxies onto the model, and behind `editor.os`, `editor.open`.  The REAL glob algorithm, the
  REAL pathlib.Path.read_text/write_text/open and the REAL os.path string functions therefore run on the model; only the
  system calls underneath (open/read/write with text-mode newline translation, scandir, stat, lstat, unlink, mkdir,
  getcwd ...) are modelled, by their documented contract.  File contents are Python strings kept exactly as on disk
  (carriage returns included); they may contain symbolic characters.  Nothing global is patched.
* RealWorld   -- used in native replay (and in the self-test): a fresh temporary directory, the real os/io/glob/pathlib.

`selftest()` runs the same scripts of file-system calls against both worlds natively and compares every result and
exception type; a disagreement is a harness error, never a verdict.
"""
import importlib.util
import io as _real_io
import os as _real_os
import posixpath
import shutil
import stat as _stat
import sys
import tempfile

from symx.env import NATIVE


def _load_private(name, path):
    spec = importlib.util.spec_from_file_location(name, path)
    mod = importlib.util.module_from_spec(spec)
    sys.modules[name] = mod
    spec.loader.exec_module(mod)
    return mod


class _Proxy:
    """Attribute proxy: overridden names first, the real module otherwise."""
    def __init__(self, real, **over):
        object.__setattr__(self, '_real', real)
        object.__setattr__(self, '_over', over)

    def __getattr__(self, name):
        over = object.__getattribute__(self, '_over')
        if name in over:
            return over[name]
        return getattr(object.__getattribute__(self, '_real'), name)


def universal_read(s):
    """newline=None on reading: CRLF and lone CR become LF (characters compared one by one, so symbolic ones fork)."""
    out = []
    i, n = 0, len(s)
    while i < n:
        ch = s[i]
        if ch == '\r':
            out.append('\n')
            if i + 1 < n and s[i + 1] == '\n':
                i += 1
        else:
            out.append(ch)
        i += 1
    return ''.join(out)


def translate_write(s, newline):
    if newline is None:
        newline = _real_os.linesep
    if newline in ('', '\n'):
        return s
    return newline.join(s.split('\n'))


class _ModelFile:
    def __init__(self, fs, path, mode, newline, data):
        self.fs, self.path, self.mode, self.newline = fs, path, mode, newline
        self.binary = 'b' in mode
        self.closed = False
        self._data = data          # what read() returns (already translated)
        self._pos = 0
        self.name = path

    def __enter__(self):
        return self

    def __exit__(self, *a):
        self.close()
        return False

    def _check(self):
        if self.closed:
            raise ValueError('I/O operation on closed file.')

    def readable(self):
        return 'r' in self.mode or '+' in self.mode

    def writable(self):
        return any(c in self.mode for c in 'wax+')

    def read(self, n=-1):
        self._check()
        if not self.readable():
            raise _real_io.UnsupportedOperation('not readable')
        if n is None or n < 0:
            r = self._data[self._pos:]
            self._pos = len(self._data)
        else:
            r = self._data[self._pos:self._pos + n]
            self._pos += len(r)
        return r

    def readline(self):
        self._check()
        rest = self._data[self._pos:]
        nl = '\n' if not self.binary else b'\n'
        k = rest.find(nl)
        r = rest if k < 0 else rest[:k + 1]
        self._pos += len(r)
        return r

    def __iter__(self):
        while True:
            line = self.readline()
            if not line:
                return
            yield line

    def readlines(self):
        return list(self)

    def write(self, s):
        self._check()
        if not self.writable():
            raise _real_io.UnsupportedOperation('not writable')
        if self.binary:
            if not isinstance(s, (bytes, bytearray)):
                raise TypeError('a bytes-like object is required')
            s = bytes(s).decode('utf-8', 'surrogateescape')
        else:
            if not isinstance(s, str):
                raise TypeError('write() argument must be str')
            s = translate_write(s, self.newline)
        self.fs.files[self.path] = self.fs.files[self.path] + s
        return len(s)

    def writelines(self, lines):
        for x in lines:
            self.write(x)

    def flush(self):
        pass

    def close(self):
        self.closed = True


class ModelFS:
    """Regular files and directories under ROOT; absolute normalised POSIX paths as keys."""
    ROOT = '/mfs'

    def __init__(self):
        self.files = {}            # abs path -> content exactly as on disk (str)
        self.dirs = {'/', self.ROOT}
        self.cwd = self.ROOT
        self.stamp = {}            # abs path -> modification counter (the model's mtime_ns)
        self.reads = {}            # abs path -> times opened for reading
        self.clock = 0

    # -- path resolution -------------------------------------------------------------------------------------------
    def resolve(self, path, parent_only=False):
        """Kernel-style walk: every intermediate component must be an existing directory ('..' is not collapsed
        lexically before that check).  Returns the absolute normalised path."""
        p = _real_os.fspath(path)
        if isinstance(p, bytes):
            p = p.decode()
        if p == '':
            raise FileNotFoundError(2, 'No such file or directory', p)
        cur = '/' if p.startswith('/') else self.cwd
        comps = [c for c in p.split('/') if c not in ('', '.')]
        for k, c in enumerate(comps):
            last = k == len(comps) - 1
            if c == '..':
                cur = posixpath.dirname(cur) or '/'
                continue
            nxt = posixpath.join(cur, c)
            if not last:
                if nxt in self.files:
                    raise NotADirectoryError(20, 'Not a directory', p)
                if nxt not in self.dirs:
                    raise FileNotFoundError(2, 'No such file or directory', p)
            cur = nxt
        if p.endswith('/') and cur in self.files:
            raise NotADirectoryError(20, 'Not a directory', p)
        return cur

    def _tick(self, path):
        self.clock += 1
        self.stamp[path] = self.clock

    # -- system calls ----------------------------------------------------------------------------------------------
    def open(self, file, mode='r', buffering=-1, encoding=None, errors=None, newline=None, closefd=True, opener=None):
        if isinstance(file, int):
            raise OSError('file descriptors are not modelled')
        if newline not in (None, '', '\n', '\r', '\r\n'):
            raise ValueError('illegal newline value: %r' % (newline,))
        kinds = [c for c in mode if c in 'rwax']
        if len(kinds) != 1 or any(c not in 'rwaxbt+' for c in mode):
            raise ValueError('invalid mode: %r' % (mode,))
        binary = 'b' in mode
        if binary and newline is not None:
            raise ValueError("binary mode doesn't take a newline argument")
        path = self.resolve(file)
        if path in self.dirs:
            raise IsADirectoryError(21, 'Is a directory', _real_os.fspath(file))
        kind = kinds[0]
        if kind == 'r':
            if path not in self.files:
                raise FileNotFoundError(2, 'No such file or directory', _real_os.fspath(file))
            self.reads[path] = self.reads.get(path, 0) + 1
            data = self.files[path]
            if binary:
                data = data.encode('utf-8', 'surrogateescape')
            elif newline is None:
                data = universal_read(data)
            return _ModelFile(self, path, mode, newline, data)
        if kind == 'x' and path in self.files:
            raise FileExistsError(17, 'File exists', _real_os.fspath(file))
        if posixpath.dirname(path) not in self.dirs:
            raise FileNotFoundError(2, 'No such file or directory', _real_os.fspath(file))
        if kind in 'wx' or path not in self.files:
            self.files[path] = ''
        self._tick(path)
        return _ModelFile(self, path, mode, newline, '')

    def unlink(self, path, *, dir_fd=None):
        p = self.resolve(path)
        if p in self.dirs:
            raise IsADirectoryError(21, 'Is a directory', _real_os.fspath(path))
        if p not in self.files:
            raise FileNotFoundError(2, 'No such file or directory', _real_os.fspath(path))
        del self.files[p]
        self.stamp.pop(p, None)

    def mkdir(self, path, mode=0o777, *, dir_fd=None):
        s = _real_os.fspath(path)
        p = self.resolve(s)
        if p in self.dirs or p in self.files:
            raise FileExistsError(17, 'File exists', s)
        if posixpath.dirname(p) not in self.dirs:
            raise FileNotFoundError(2, 'No such file or directory', s)
        self.dirs.add(p)

    def makedirs(self, name, mode=0o777, exist_ok=False):
        """os.makedirs, transcribed from the stdlib (Lib/os.py) onto the model's mkdir/exists/isdir."""
        name = _real_os.fspath(name)
        head, tail = posixpath.split(name)
        if not tail:
            head, tail = posixpath.split(head)
        if head and tail and not self.exists(head):
            try:
                self.makedirs(head, exist_ok=exist_ok)
            except FileExistsError:
                pass
            if tail == '.':
                return
        try:
            self.mkdir(name, mode)
        except OSError:
            if not exist_ok or not self.isdir(name):
                raise

    def rmdir(self, path):
        p = self.resolve(path)
        if p not in self.dirs:
            raise FileNotFoundError(2, 'No such file or directory', _real_os.fspath(path))
        if any(posixpath.dirname(x) == p for x in list(self.files) + list(self.dirs) if x != p):
            raise OSError(39, 'Directory not empty', _real_os.fspath(path))
        self.dirs.discard(p)

    def rename(self, src, dst, **kw):
        a, b = self.resolve(src), self.resolve(dst)
        if a not in self.files:
            raise FileNotFoundError(2, 'No such file or directory', _real_os.fspath(src))
        if posixpath.dirname(b) not in self.dirs:
            raise FileNotFoundError(2, 'No such file or directory', _real_os.fspath(dst))
        self.files[b] = self.files.pop(a)
        self.stamp.pop(a, None)
        self._tick(b)

    def stat(self, path, *, dir_fd=None, follow_symlinks=True):
        p = self.resolve(path)
        if p in self.dirs:
            mode, size, mt = _stat.S_IFDIR | 0o755, 4096, 0
        elif p in self.files:
            mode, size, mt = _stat.S_IFREG | 0o644, len(self.files[p]), self.stamp.get(p, 0)
        else:
            raise FileNotFoundError(2, 'No such file or directory', _real_os.fspath(path))
        return _real_os.stat_result((mode, 0, 0, 1, 0, 0, size, mt, mt, mt))

    def lstat(self, path, *, dir_fd=None):
        return self.stat(path)

    def exists(self, path):
        try:
            self.stat(path)
        except (OSError, ValueError):
            return False
        return True

    lexists = exists

    def isdir(self, path):
        try:
            return self.resolve(path) in self.dirs
        except (OSError, ValueError):
            return False

    def isfile(self, path):
        try:
            return self.resolve(path) in self.files
        except (OSError, ValueError):
            return False

    def islink(self, path):
        return False

    def listdir(self, path='.'):
        p = self.resolve(path)
        if p in self.files:
            raise NotADirectoryError(20, 'Not a directory', _real_os.fspath(path))
        if p not in self.dirs:
            raise FileNotFoundError(2, 'No such file or directory', _real_os.fspath(path))
        return sorted(posixpath.basename(x) for x in list(self.files) + list(self.dirs) if x != p and posixpath.dirname(x) == p)

    def scandir(self, path='.'):
        names = self.listdir(path)
        base = _real_os.fspath(path)
        return _ScanDir([_Entry(self, n, n if base == '.' and path == '.' else posixpath.join(base, n)) for n in names])

    def getcwd(self):
        return self.cwd

    def chdir(self, path):
        p = self.resolve(path)
        if p not in self.dirs:
            raise FileNotFoundError(2, 'No such file or directory', _real_os.fspath(path))
        self.cwd = p

    def abspath(self, path):
        path = _real_os.fspath(path)
        if not path.startswith('/'):
            path = posixpath.join(self.cwd, path)
        return posixpath.normpath(path)

    def realpath(self, path, *, strict=False):
        return self.abspath(path)       # no symlinks in the model


class _Entry:
    def __init__(self, fs, name, path):
        self._fs, self.name, self.path = fs, name, path

    def is_dir(self, *, follow_symlinks=True):
        return self._fs.isdir(self.path)

    def is_file(self, *, follow_symlinks=True):
        return self._fs.isfile(self.path)

    def is_symlink(self):
        return False

    def stat(self, *, follow_symlinks=True):
        return self._fs.stat(self.path)

    def __fspath__(self):
        return self.path


class _ScanDir:
    def __init__(self, entries):
        self._it = iter(entries)

    def __enter__(self):
        return self

    def __exit__(self, *a):
        return False

    def __iter__(self):
        return self._it

    def __next__(self):
        return next(self._it)

    def close(self):
        pass


def _bindings(fs):
    """Private module copies bound to the model: (os proxy, io proxy, glob copy, pathlib copy)."""
    import glob as real_glob
    import pathlib as real_pathlib
    path_proxy = _Proxy(posixpath, exists=fs.exists, lexists=fs.lexists, isdir=fs.isdir, isfile=fs.isfile, islink=fs.islink,
                        abspath=fs.abspath, realpath=fs.realpath, getmtime=lambda p: fs.stat(p).st_mtime,
                        getsize=lambda p: fs.stat(p).st_size)
    os_proxy = _Proxy(_real_os, path=path_proxy, unlink=fs.unlink, remove=fs.unlink, mkdir=fs.mkdir, makedirs=fs.makedirs, rmdir=fs.rmdir,
                      rename=fs.rename, replace=fs.rename, stat=fs.stat, lstat=fs.lstat, scandir=fs.scandir, listdir=fs.listdir,
                      getcwd=fs.getcwd, chdir=fs.chdir, open=_refuse('os.open'), utime=_refuse('os.utime'), link=_refuse('os.link'),
                      symlink=_refuse('os.symlink'), walk=_refuse('os.walk'))
    io_proxy = _Proxy(_real_io, open=fs.open)
    g = _load_private('_symx_glob', real_glob.__file__)
    g.os = os_proxy
    p = _load_private('_symx_pathlib', real_pathlib.__file__)
    p.os = os_proxy
    p.io = io_proxy
    return os_proxy, io_proxy, g, p


def _refuse(name):
    def f(*a, **k):
        raise NotImplementedError('%s is not modelled by symx.fsenv' % name)
    return f


OLD_NS = 946684800 * 10 ** 9      # initial mtime of every file in the real world: any rewrite changes it


class ModelWorld:
    kind = 'model'

    def __init__(self, files, dirs=(), cwd='w'):
        """files: {path relative to the root: content}; cwd relative to the root."""
        self.fs = ModelFS()
        self.root = ModelFS.ROOT
        for d in [cwd] + list(dirs) + [posixpath.dirname(f) for f in files]:
            self._mkdirs(posixpath.join(self.root, d))
        for f, c in files.items():
            self.fs.files[posixpath.join(self.root, f)] = c
        self.fs.cwd = posixpath.normpath(posixpath.join(self.root, cwd))
        self.os, self.io, self.glob, self.pathlib = _bindings(self.fs)

    def _mkdirs(self, p):
        p = posixpath.normpath(p)
        while p not in self.fs.dirs:
            self.fs.dirs.add(p)
            p = posixpath.dirname(p)

    def bind(self, editor_module):
        """Points the editor module's file-system names at the model (module globals; nothing global is patched)."""
        self._saved = {k: editor_module.__dict__.get(k, _MISSING) for k in ('os', 'glob', 'pathlib', 'open')}
        editor_module.os = self.os
        editor_module.glob = self.glob
        editor_module.pathlib = self.pathlib
        editor_module.open = self.fs.open
        self._editor = editor_module

    def unbind(self):
        for k, v in self._saved.items():
            if v is _MISSING:
                self._editor.__dict__.pop(k, None)
            else:
                setattr(self._editor, k, v)

    def Path(self, p):
        return self.pathlib.Path(p)

    def snapshot(self):
        """{path relative to the root: (content, stamp)} for every regular file."""
        n = len(self.root) + 1
        return {p[n:]: (c, self.fs.stamp.get(p, 0)) for p, c in self.fs.files.items()}

    def dirs(self):
        n = len(self.root) + 1
        return {p[n:] for p in self.fs.dirs if len(p) > n}

    def reads(self):
        n = len(self.root) + 1
        return {p[n:]: k for p, k in self.fs.reads.items()}

    def close(self):
        pass


_MISSING = object()


class RealWorld:
    kind = 'real'

    def __init__(self, files, dirs=(), cwd='w'):
        self.root = tempfile.mkdtemp(prefix='symx_c16_')
        for d in [cwd] + list(dirs) + [posixpath.dirname(f) for f in files]:
            _real_os.makedirs(posixpath.join(self.root, d), exist_ok=True)
        for f, c in files.items():
            p = posixpath.join(self.root, f)
            with open(p, 'w', newline='', encoding='utf-8') as fh:
                fh.write(c)
            _real_os.utime(p, ns=(OLD_NS, OLD_NS))
        self._old_cwd = _real_os.getcwd()
        _real_os.chdir(posixpath.join(self.root, cwd))
        import glob
        import pathlib
        self.os, self.io, self.glob, self.pathlib = _real_os, _real_io, glob, pathlib

    def bind(self, editor_module):
        pass

    def unbind(self):
        pass

    def Path(self, p):
        return self.pathlib.Path(p)

    def snapshot(self):
        out = {}
        for base, ds, fs in _real_os.walk(self.root):
            for f in fs:
                p = posixpath.join(base, f)
                with open(p, newline='', encoding='utf-8') as fh:
                    c = fh.read()
                st = _real_os.stat(p).st_mtime_ns
                out[posixpath.relpath(p, self.root)] = (c, 0 if st == OLD_NS else st)
        return out

    def dirs(self):
        out = set()
        for base, ds, fs in _real_os.walk(self.root):
            for d in ds:
                out.add(posixpath.relpath(posixpath.join(base, d), self.root))
        return out

    def reads(self):
        return None

    def close(self):
        _real_os.chdir(self._old_cwd)
        shutil.rmtree(self.root, ignore_errors=True)


def World(files, dirs=(), cwd='w'):
    return (RealWorld if NATIVE else ModelWorld)(files, dirs, cwd)


# ---------------------------------------------------------------------------------------------------------------------
# Self-test: the model against the real file system (run natively before every C16 run)

_TREE = {
    'w/main.bean': 'a\r\nb\n', 'w/a.bean': 'x\n', 'w/inc/x.bean': '1\r2\r\n3', 'w/inc/y.bean': '', 'w/inc/z.txt': 'z',
    'w/inc/d/deep.bean': 'd\n', 'w/.hidden.bean': 'h', 'w/sub/b.bean': 'b',
}
_GLOBS = ['main.bean', './main.bean', 'sub/../main.bean', 'nodir/../main.bean', '*.bean', './*.bean', 'inc/*.bean', 'inc/**/*.bean', '**/*.bean',
          'inc/**', 'inc/?.bean', 'inc/[xy].bean', 'none*.bean', 'sub/../inc/*.bean', '{root}/w/inc/*.bean', '{root}/w/main.bean', 'inc/*/', 'inc/d/../*.bean',
          '', '*', 'inc', 'inc/', '../w/*.bean', 'main.bean/x', '**', 'inc/**/deep.bean']


def _script(w):
    """A deterministic script of file-system calls through world `w`; returns the list of observations."""
    obs = []

    def rec(label, fn):
        try:
            obs.append((label, 'ok', fn()))
        except Exception as e:     # noqa: BLE001 - the exception class is the observation
            obs.append((label, 'raise', type(e).__name__))

    opn = w.fs.open if w.kind == 'model' else open
    root = w.root

    def fix(x):
        if isinstance(x, list):
            return sorted(s.replace(root, '{root}') for s in x)
        return x

    for g in _GLOBS:
        for rec_flag in (True, False):
            rec('glob %s %s' % (g, rec_flag), lambda: fix(w.glob.glob(g.replace('{root}', root), recursive=rec_flag)))
    for p in ['main.bean', 'inc/x.bean', 'inc/y.bean', 'missing.bean', 'inc', 'sub/../a.bean', 'nodir/../a.bean', 'a.bean/', '']:
        for nl in (None, '', '\n', '\r', '\r\n'):
            def rd():
                with opn(p, newline=nl) as f:
                    return f.read()
            rec('read %r newline=%r' % (p, nl), rd)
        rec('Path.read_text %r' % p, lambda: w.Path(p).read_text())
        rec('stat.isdir %r' % p, lambda: _stat.S_ISDIR(w.os.stat(p).st_mode))
        rec('exists %r' % p, lambda: w.os.path.exists(p))
        rec('isdir %r' % p, lambda: w.os.path.isdir(p))
    rec('lines', lambda: list(opn('main.bean')))
    k = 0
    for p in ['new.bean', 'newdir/n.bean', 'inc/x.bean', 'sub/../n2.bean', 'inc', '']:
        for nl in (None, '', '\n', '\r\n', '\r'):
            k += 1

            def wr():
                with opn(p, 'w', newline=nl) as f:
                    f.write('q\nr\r\ns\r')
                    f.write('t')
                with opn(p, newline='') as f:
                    return f.read()
            rec('write %r newline=%r' % (p, nl), wr)
    rec('Path.write_text', lambda: (w.Path('pw.bean').write_text('u\nv\r\n'), opn('pw.bean', newline='').read()))
    rec('append', lambda: (opn('pw.bean', 'a', newline='').write('w'), opn('pw.bean', newline='').read())[1])
    rec('exclusive existing', lambda: opn('pw.bean', 'x'))
    for d in ['', 'inc', 'nd1/nd2', 'main.bean', 'main.bean/x', 'nd1', './', '.', 'nd3/', 'nd4/.']:
        for ok in (True, False):
            rec('makedirs %r exist_ok=%r' % (d, ok), lambda: w.os.makedirs(d, exist_ok=ok))
    for p in ['new.bean', 'missing.bean', 'inc', 'sub/../a.bean', '', 'a.bean']:
        rec('unlink %r' % p, lambda: w.os.unlink(p))
    rec('Path.unlink', lambda: w.Path('pw.bean').unlink())
    rec('Path.exists', lambda: (w.Path('pw.bean').exists(), w.Path('main.bean').exists(), w.Path('inc').is_dir()))
    rec('final files', lambda: sorted((k, v[0]) for k, v in w.snapshot().items()))
    rec('final dirs', lambda: sorted(w.dirs()))
    rec('rewritten', lambda: sorted(k for k, v in w.snapshot().items() if v[1]))
    return obs


def selftest():
    """Model vs real file system on the script above.  Returns (ok, detail)."""
    m = ModelWorld(dict(_TREE))
    r = RealWorld(dict(_TREE))
    try:
        a = _script(m)
        b = _script(r)
    finally:
        r.close()
    bad = [(x, y) for x, y in zip(a, b) if x != y]
    if len(a) != len(b) or bad:
        return False, 'fsenv model disagrees with the real file system: %r' % (bad[:3],)
    return True, 'fsenv: %d file-system observations agree between the model and a real directory' % len(a)


if __name__ == '__main__':
    ok, detail = selftest()
    print(detail)
    sys.exit(0 if ok else 3)
