"""Replay a violation file written by a check:  .venv/bin/python symx/replay_file.py replays/C07/<cell>.json"""
import json
import os
import subprocess
import sys

VERIF = os.path.dirname(os.path.dirname(os.path.abspath(__file__)))
rec = json.load(open(sys.argv[1]))
r = subprocess.run([sys.executable, '-m', 'symx.worker', 'replay', rec['module'], rec['cell'], json.dumps(rec['args'])],
                   cwd=VERIF, capture_output=True, text=True)
print(r.stdout)
for line in r.stdout.splitlines():
    if line.startswith('RESULT '):
        sys.exit(1 if json.loads(line[7:]).get('reproduced') else 0)
sys.exit(3)
