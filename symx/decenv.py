"""Make CrossHair's pure-Python Decimal (a port of _pydecimal that replaces decimal.Decimal under tracing) usable:
its numeral parser is a re.VERBOSE|re.IGNORECASE pattern that CrossHair's regex model cannot compile
("nothing to repeat"); the same pattern is interpreted by symre instead.  No installed file is modified."""
import re

from symx import symre
from symx.env import NATIVE

_PAT = r"""        # A numeric string consists of:
#    \s*
    (?P<sign>[-+])?              # an optional sign, followed by either...
    (
        (?=\d|\.\d)              # ...a number (with at least one digit)
        (?P<int>\d*)             # having a (possibly empty) integer part
        (\.(?P<frac>\d*))?       # followed by an optional fractional part
        (E(?P<exp>[-+]?\d+))?    # followed by an optional exponent, or...
    |
        Inf(inity)?              # ...an infinity, or...
    |
        (?P<signal>s)?           # ...an (optionally signaling)
        NaN                      # NaN
        (?P<diag>\d*)            # with (possibly empty) diagnostic info.
    )
#    \s*
    \Z
"""

if not NATIVE:
    from crosshair.libimpl import decimallib
    decimallib._parser = symre.sym_match_fn(_PAT, re.VERBOSE | re.IGNORECASE)
