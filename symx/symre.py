"""Pure-Python backtracking regex interpreter over sre parse trees (prototype).

Priority (leftmost-first) semantics identical to `re`: `match_end` yields end
positions in backtracking order; the first is what `re.match` returns.
Works char-by-char with ordinary comparisons so a symbolic executor can fork.
"""
import re
try:
    import re._parser as sre_parse
    import re._constants as C
except ImportError:  # py<3.11
    import sre_parse
    import sre_constants as C

SRE_FLAG_M = re.M
SRE_FLAG_S = re.S
SRE_FLAG_I = re.I


def _swap(av):
    if 65 <= av <= 90: return av + 32
    if 97 <= av <= 122: return av - 32
    return None


def _in_class(items, ch, o):
    """Membership of code point o in a character class, as ONE boolean built with non-short-circuit | and &
    (a symbolic executor then forks once per character instead of once per range bound)."""
    neg = False
    res = False
    for op, av in items:
        if op is C.NEGATE:
            neg = True
        elif op is C.LITERAL:
            res = res | (o == av)
        elif op is C.RANGE:
            lo, hi = av
            res = res | ((lo <= o) & (o <= hi))
        elif op is C.CATEGORY:
            if av is C.CATEGORY_DIGIT:
                res = res | ((48 <= o) & (o <= 57))
                if o > 127:
                    res = res | ch.isdigit()
            else:
                raise NotImplementedError(av)
        else:
            raise NotImplementedError(op)
    return (not res) if neg else res


def _m(seq, i, text, pos, flags, groups, cont):
    """Match seq[i:] at pos; call cont(pos, groups) for each way, in priority order; yields results."""
    if i == len(seq):
        yield from cont(pos, groups)
        return
    op, av = seq[i]
    n = len(text)
    if op is C.LITERAL:
        if pos < n and ((ord(text[pos]) == av) | ((ord(text[pos]) == _swap(av)) if (flags & SRE_FLAG_I and _swap(av) is not None) else False)):
            yield from _m(seq, i + 1, text, pos + 1, flags, groups, cont)
    elif op is C.NOT_LITERAL:
        if pos < n and ord(text[pos]) != av:
            yield from _m(seq, i + 1, text, pos + 1, flags, groups, cont)
    elif op is C.ANY:
        if pos < n and (flags & SRE_FLAG_S or ord(text[pos]) != 10):
            yield from _m(seq, i + 1, text, pos + 1, flags, groups, cont)
    elif op is C.IN:
        if pos < n and _in_class(av, text[pos], ord(text[pos])):
            yield from _m(seq, i + 1, text, pos + 1, flags, groups, cont)
    elif op is C.BRANCH:
        _, alts = av
        for alt in alts:
            yield from _m(list(alt), 0, text, pos, flags, groups,
                          lambda p, g: _m(seq, i + 1, text, p, flags, g, cont))
    elif op is C.SUBPATTERN:
        gid, add, dele, sub = av
        f2 = (flags | add) & ~dele
        def after(p, g, gid=gid, start=pos):
            if gid is not None:
                g = dict(g)
                g[gid] = (start, p)
            return _m(seq, i + 1, text, p, flags, g, cont)
        yield from _m(list(sub), 0, text, pos, f2, groups, after)
    elif op is C.MAX_REPEAT or op is C.MIN_REPEAT:
        lo, hi, sub = av
        sub = list(sub)
        greedy = op is C.MAX_REPEAT
        def rep(count, p, g):
            def rest():
                return _m(seq, i + 1, text, p, flags, g, cont)
            def more():
                if hi is C.MAXREPEAT or count < hi:
                    def again(p2, g2):
                        if p2 == p and count >= lo:
                            return iter(())  # no progress: stop (as sre does)
                        return rep(count + 1, p2, g2)
                    return _m(sub, 0, text, p, flags, g, again)
                return iter(())
            if count < lo:
                yield from more()
            elif greedy:
                yield from more()
                yield from rest()
            else:
                yield from rest()
                yield from more()
        yield from rep(0, pos, groups)
    elif op is C.AT:
        ok = False
        if av is C.AT_BEGINNING:
            if flags & SRE_FLAG_M:
                ok = pos == 0 or ord(text[pos - 1]) == 10
            else:
                ok = pos == 0
        elif av is C.AT_BEGINNING_LINE:
            ok = pos == 0 or ord(text[pos - 1]) == 10
        elif av is C.AT_BEGINNING_STRING:
            ok = pos == 0
        elif av is C.AT_END:
            if flags & SRE_FLAG_M:
                ok = pos == n or ord(text[pos]) == 10
            else:
                ok = pos == n or (pos == n - 1 and ord(text[pos]) == 10)
        elif av is C.AT_END_LINE:
            ok = pos == n or ord(text[pos]) == 10
        elif av is C.AT_END_STRING:
            ok = pos == n
        else:
            raise NotImplementedError(av)
        if ok:
            yield from _m(seq, i + 1, text, pos, flags, groups, cont)
    elif op is C.ASSERT or op is C.ASSERT_NOT:
        direction, sub = av
        sub = list(sub)
        if direction >= 0:
            found = False
            for _ in _m(sub, 0, text, pos, flags, groups, lambda p, g: iter(((p, g),))):
                found = True
                break
        else:
            # lookbehind: fixed width w; try matching sub ending exactly at pos
            lo, hi = sre_parse.SubPattern(None, sub).getwidth() if False else _width(sub)
            assert lo == hi, 'variable-width lookbehind'
            found = False
            if pos - lo >= 0:
                for p, _g in _m(sub, 0, text, pos - lo, flags, groups, lambda p, g: iter(((p, g),))):
                    if p == pos:
                        found = True
                        break
        if found == (op is C.ASSERT):
            yield from _m(seq, i + 1, text, pos, flags, groups, cont)
    else:
        raise NotImplementedError(op)


def _width(seq):
    lo = hi = 0
    for op, av in seq:
        if op in (C.LITERAL, C.NOT_LITERAL, C.ANY, C.IN):
            lo += 1; hi += 1
        elif op is C.SUBPATTERN:
            a, b = _width(list(av[3])); lo += a; hi += b
        elif op is C.BRANCH:
            ws = [_width(list(a)) for a in av[1]]
            lo += min(w[0] for w in ws); hi += max(w[1] for w in ws)
        elif op in (C.MAX_REPEAT, C.MIN_REPEAT):
            a, b = _width(list(av[2]))
            lo += a * av[0]
            hi += b * (10**6 if av[1] is C.MAXREPEAT else av[1])
        elif op in (C.AT, C.ASSERT, C.ASSERT_NOT):
            pass
        else:
            raise NotImplementedError(op)
    return lo, hi


class SymPattern:
    def __init__(self, pattern, flags=0):
        self.pattern = pattern
        self.tree = sre_parse.parse(pattern, flags)
        self.flags = self.tree.state.flags
        self.seq = list(self.tree)

    def match_end(self, text, pos=0):
        """First-priority match end at pos, with groups; or None."""
        for p, g in _m(self.seq, 0, text, pos, self.flags, {}, lambda p, g: iter(((p, g),))):
            return p, g
        return None

    def fullmatch_groups(self, text):
        n = len(text)
        for p, g in _m(self.seq, 0, text, 0, self.flags, {},
                       lambda p, g: iter(((p, g),)) if p == n else iter(())):
            return g
        return None


class TrackedText:
    """Concrete text wrapper recording the min/max index examined (native fast path)."""
    __slots__ = ('s', 'lo', 'hi')
    def __init__(self, s):
        self.s = s; self.lo = 1 << 60; self.hi = -1
    def __len__(self):
        return len(self.s)
    def __getitem__(self, i):
        if i < self.lo: self.lo = i
        if i > self.hi: self.hi = i
        return self.s[i]


class SymMatch:
    def __init__(self, pat, text, end, groups):
        self.pat, self.text, self._end, self.g = pat, text, end, groups
    def end(self): return self._end
    def group(self, key=0):
        if key == 0:
            return self.text[0:self._end]
        gid = self.pat.tree.state.groupdict[key] if isinstance(key, str) else key
        if gid not in self.g:
            return None
        a, b = self.g[gid]
        return self.text[a:b]


def sym_match_fn(pattern, flags=0):
    sp = SymPattern(pattern, flags)
    def match(text):
        r = sp.match_end(text, 0)
        if r is None:
            return None
        return SymMatch(sp, text, r[0], r[1])
    return match


class SymRegex:
    """Drop-in for a compiled `re.Pattern` whose methods keep a symbolic text symbolic: the SAME pattern text and flags are
    interpreted by SymPattern.  Implements findall / finditer / match / fullmatch / search with re's scanning rules (leftmost,
    first-priority; after an empty match the scan advances by one).  Anything else raises Unsupported (the cell is then
    inconclusive, never a verdict)."""
    class Unsupported(Exception):
        pass

    def __init__(self, rx):
        self.pattern, self.flags = rx.pattern, rx.flags
        self.sp = SymPattern(rx.pattern, rx.flags)
        self.groups = self.sp.tree.state.groups - 1
        self.groupindex = dict(self.sp.tree.state.groupdict)

    def _at(self, text, pos, nonempty=False):
        for p, g in _m(self.sp.seq, 0, text, pos, self.sp.flags, {}, lambda p, g: iter(((p, g),))):
            if nonempty and not (p > pos):
                continue
            return _SymM(self, text, pos, p, g)
        return None

    def match(self, text, pos=0):
        return self._at(text, pos)

    def fullmatch(self, text):
        g = self.sp.fullmatch_groups(text)
        return None if g is None else _SymM(self, text, 0, len(text), g)

    def search(self, text, pos=0):
        for m in self.finditer(text, pos):
            return m
        return None

    def finditer(self, text, pos=0):
        n = len(text)
        after_empty = False
        while pos <= n:
            m = self._at(text, pos, nonempty=after_empty)      # re: no empty match right where the previous (empty) match ended
            if m is None:
                pos += 1
                after_empty = False
                continue
            yield m
            after_empty = not (m.end() > pos)
            pos = m.end()

    def findall(self, text, pos=0):
        out = []
        for m in self.finditer(text, pos):
            if self.groups == 0:
                out.append(m.group(0))
            elif self.groups == 1:
                out.append(m.group(1) if m.group(1) is not None else '')
            else:
                out.append(tuple(x if x is not None else '' for x in m.groups()))
        return out

    def __getattr__(self, name):
        raise SymRegex.Unsupported('re.Pattern.%s is not modelled' % name)


class _SymM:
    def __init__(self, rx, text, start, end, g):
        self.re, self.string, self._s, self._e, self.g = rx, text, start, end, g

    def start(self, k=0):
        return self._s if k == 0 else self.g.get(self._gid(k), (-1, -1))[0]

    def end(self, k=0):
        return self._e if k == 0 else self.g.get(self._gid(k), (-1, -1))[1]

    def span(self, k=0):
        return (self.start(k), self.end(k))

    def _gid(self, k):
        return self.re.groupindex[k] if isinstance(k, str) else k

    def group(self, *ks):
        if not ks:
            ks = (0,)
        r = []
        for k in ks:
            if k == 0:
                r.append(self.string[self._s:self._e])
            else:
                gid = self._gid(k)
                r.append(self.string[self.g[gid][0]:self.g[gid][1]] if gid in self.g else None)
        return r[0] if len(r) == 1 else tuple(r)

    def groups(self, default=None):
        return tuple(self.string[self.g[i][0]:self.g[i][1]] if i in self.g else default for i in range(1, self.re.groups + 1))

    @property
    def lastindex(self):
        ks = [i for i in self.g if i >= 1]
        return max(ks, key=lambda i: self.g[i][1]) if ks else None

    def __getitem__(self, k):
        return self.group(k)
