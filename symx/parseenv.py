"""Keep text symbolic through the REAL parser (lark contextual lexer + LALR + PostLex + ModelBuilder).

* lark.lexer.Scanner.match  -> the same terminal regexes, tried in lark's order, interpreted by symre.  Positions whose
  match attempts never look at a symbolic character are lexed natively on a concrete shadow text (fast path).
* PostLex._NEWLINE_INDENT_COMMENT_SPLIT_RE -> the same pattern interpreted by symre (with groups).
* ParserState.feed_token / InteractiveParser.choices run untraced: they only read token types, which are concrete.
Nothing is installed in native replay mode: counterexamples are replayed with the real `re`.
"""
from symx.env import NATIVE, NoTracing, realize
from symx import symre, decenv  # noqa: F401
from symx.symre import SymPattern, TrackedText

HOLES = []       # (start, stop) symbolic index ranges of the text being parsed
SHADOW = ['']    # concrete shadow text with NUL in the holes
STATS = {'native': 0, 'traced': 0}

if not NATIVE:
    from lark import lexer as lark_lexer
    from lark.parsers import lalr_parser_state, lalr_interactive_parser
    from autobean_refactor import parser as pl

    _sym_cache = {}

    def _sym(t):
        sp = _sym_cache.get(t.name)
        if sp is None:
            sp = _sym_cache[t.name] = SymPattern(t.pattern.to_regexp())
        return sp

    def _touches(lo, hi):
        for a, b in HOLES:
            if lo < b and hi >= a:
                return True
        return False

    def _scanner_match(self, text, pos):
        s = text.text if hasattr(text, 'text') else text
        with NoTracing():
            shadow = SHADOW[0]
            res = None
            ok = True
            p = realize(pos)
            for t in self.terminals:
                tt = TrackedText(shadow)
                r = _sym(t).match_end(tt, p)
                if tt.hi >= 0 and _touches(tt.lo, tt.hi):
                    ok = False
                    break
                if r is not None:
                    res = (r[0], t.name)
                    break
            if ok:
                STATS['native'] += 1
                if res is None:
                    return None
        if ok:
            return s[pos:res[0]], res[1]
        STATS['traced'] += 1
        for t in self.terminals:
            r = _sym(t).match_end(s, pos)
            if r is not None:
                return s[pos:r[0]], t.name
        return None

    lark_lexer.Scanner.match = _scanner_match

    class _SplitRE:
        def __init__(self, rx):
            self.sp = SymPattern(rx.pattern, rx.flags)

        def fullmatch(self, s):
            g = self.sp.fullmatch_groups(s)
            if g is None:
                return None
            return _M(s, g)

        def match(self, s):
            r = self.sp.match_end(s, 0)      # first-priority match at 0, like re.match
            if r is None:
                return None
            return _M(s, r[1])

    class _M:
        def __init__(self, s, g):
            self.s, self.g = s, g

        def groups(self):
            return tuple(self.s[self.g[i][0]:self.g[i][1]] if i in self.g else None for i in (1, 2, 3))

    pl.PostLex._NEWLINE_INDENT_COMMENT_SPLIT_RE = _SplitRE(pl.PostLex._NEWLINE_INDENT_COMMENT_SPLIT_RE)

    _orig_feed = lalr_parser_state.ParserState.feed_token

    def _feed(self, token, is_end=False):
        with NoTracing():
            return _orig_feed(self, token, is_end)

    lalr_parser_state.ParserState.feed_token = _feed
    _orig_choices = lalr_interactive_parser.InteractiveParser.choices

    def _choices(self):
        with NoTracing():
            return _orig_choices(self)

    lalr_interactive_parser.InteractiveParser.choices = _choices


def build(pre, hole_cps, post):
    """pre + chr(c)... + post with the hole registered for the lexer fast path."""
    HOLES[:] = [(len(pre), len(pre) + len(hole_cps))]
    SHADOW[0] = pre + '\0' * len(hole_cps) + post
    s = pre
    for c in hole_cps:
        s = s + chr(c)
    return s + post
