"""symx -- bounded symbolic execution (CrossHair + z3) of autobean-refactor's real code."""
