"""Document-level scaffolds and oracles (all independent of the code under test).

* parse()               concrete parse of a scaffold with the real parser, untraced
* children()/walk()     generic tree walker through the `fields.field` descriptors of each model class
* tree_invariant()      C05 structural invariant of a tree against its token store
* semdump()             C06/C15 semantic dump for re-parse comparison
* window()              C03 token-identity window between two snapshots
"""
from symx.env import NoTracing, realize, check, Fail, NATIVE
from symx import lexenv

import io

from autobean_refactor import models, printer
from autobean_refactor.models import base
from autobean_refactor.models.internal import fields as F, repeated as R, placeholder as PH

PARSER = lexenv.PARSER

PRE = '2000-01-01 open Assets:Z\n'
POST = '2000-12-31 close Assets:Z\n'


def parse(text, cls=models.File, acc=True):
    with NoTracing():
        return PARSER.parse(realize(text), cls, auto_claim_comments=acc)


BLOCK_PATTERNS = ['M', 'L', 'H', 'HL', 'LH', 'HLL', 'LHH', 'MHL']


def block_bounds(lf):
    """Smallest and largest size a block of a multi-block store can have at load factor lf (sizes in (lf//2, 2*lf))."""
    return lf // 2 + 1, 2 * lf - 1


def reblock(store, lf, pat, first):
    """Re-partitions `store` into blocks for load factor `lf`: the first block has lo+first tokens, the following ones cycle
    through BLOCK_PATTERNS[pat] (L = smallest legal size, M = lf, H = largest legal size).  Every layout whose block
    sizes all lie in (lf//2, 2*lf) is reachable through the public API (grow / shrink each block of a from_tokens store
    with same-block edits), so an edit applied to such a layout is one step of some real history.  Untraced."""
    from symx.env import set_load_factor
    from autobean_refactor import token_store as ts
    set_load_factor(lf)
    lo, hi = block_bounds(lf)
    toks = list(store)
    for t in toks:
        t.store_handle = None
    pattern = BLOCK_PATTERNS[pat]
    sizes = []
    remaining = len(toks)
    k = 0
    while remaining:
        if not sizes:
            sz = lo + first
        else:
            sz = {'L': lo, 'M': lf, 'H': hi}[pattern[k % len(pattern)]]
            k += 1
        sz = min(sz, remaining)
        rest = remaining - sz
        if 0 < rest < lo:           # the tail is too small for a block of its own
            sz = remaining if remaining <= hi else remaining - lo
        sizes.append(sz)
        remaining -= sz
    blocks = []
    pos = 0
    for idx, sz in enumerate(sizes):
        blocks.append(ts._StoreBlock.from_tokens(toks[pos:pos + sz], store, idx))
        pos += sz
    if not blocks:
        blocks = [ts._StoreBlock(store, 0, [])]
    store._blocks[:] = blocks
    store._len = len(toks)
    return sizes


def text_of(model):
    """What the REAL printer writes for the model (printer.print_model into a StringIO)."""
    return printer.print_model(model, io.StringIO()).getvalue()


def tokens_text(model):
    """Concatenation of the raw texts of the model's tokens (the printer's specification)."""
    return ''.join(t.raw_text for t in model.tokens)


def store_tokens(store):
    return list(store)


_FIELDS = {}


def field_names(cls):
    r = _FIELDS.get(cls)
    if r is None:
        r = []
        seen = set()
        for k in cls.__mro__:
            for name, d in vars(k).items():
                if isinstance(d, F.field) and name not in seen:
                    seen.add(name)
                    r.append(name)
        _FIELDS[cls] = r
    return r


def children(m):
    """(slot name, child) pairs of a tree model, in no particular order; tokens have none."""
    if isinstance(m, base.RawTokenModel):
        return []
    if isinstance(m, R.Repeated):
        return [('placeholder', m.placeholder)] + [('items[%d]' % i, it) for i, it in enumerate(m.items)]
    out = []
    if isinstance(m, (models.NumberAddExpr, models.NumberMulExpr)):
        out += [('operands[%d]' % i, x) for i, x in enumerate(m.raw_operands)]
        out += [('ops[%d]' % i, x) for i, x in enumerate(m.raw_ops)]
        return out
    for name in field_names(type(m)):
        v = m.__dict__.get(name)
        if v is not None:
            out.append((name, v))
    return out


def walk(root, path='root'):
    """All (path, model) reachable from root, root first."""
    out = [(path, root)]
    for name, c in children(root):
        out += walk(c, path + '.' + name)
    return out


TRIVIA_RULES = frozenset(['WHITESPACE', '_NEWLINE', '_COMMA', 'BLOCK_COMMENT'])


def tree_invariant(root, store=None, what='tree', whole_store=True):
    """C05: every reachable model lives in `store`; first/last in store in order; children nested, ordered, disjoint;
    every non-trivia token of the store is a leaf of exactly one tree position; every tree leaf is in the store."""
    with NoTracing():
        if store is None:
            store = root.token_store
        toks = list(store)
        index = {id(t): i for i, t in enumerate(toks)}
        owned = {}

        def span(m, path):
            check(m.token_store is store, what, path, type(m).__name__, 'does not live in the root token store')
            if isinstance(m, base.RawTokenModel):
                check(id(m) in index, what, path, 'leaf token is not in the store', R_(m))
                owned[id(m)] = owned.get(id(m), 0) + 1
                check(owned[id(m)] == 1, what, path, 'token is a leaf of two tree positions', R_(m))
                return index[id(m)], index[id(m)]
            ft, lt = m.first_token, m.last_token
            check(ft is not None and lt is not None, what, path, 'no first/last token')
            check(id(ft) in index and id(lt) in index, what, path, type(m).__name__, 'first/last token not in the store')
            a, b = index[id(ft)], index[id(lt)]
            check(a <= b, what, path, 'first token after last token', a, b)
            spans = []
            for name, c in children(m):
                ca, cb = span(c, path + '.' + name)
                check(a <= ca and cb <= b, what, path + '.' + name, 'child span outside its parent', (ca, cb), (a, b))
                spans.append((ca, cb, name))
            spans.sort()
            for (a1, b1, n1), (a2, b2, n2) in zip(spans, spans[1:]):
                check(b1 < a2, what, path, 'children overlap or are out of order', n1, (a1, b1), n2, (a2, b2))
            return a, b

        a, b = span(root, type(root).__name__)
        if whole_store:
            for i, t in enumerate(toks):
                if t.RULE in TRIVIA_RULES:
                    continue
                check(owned.get(id(t), 0) == 1, what, 'token', i, R_(t), 'is in the store but owned by', owned.get(id(t), 0), 'tree positions')


class R_:
    __slots__ = ('v',)

    def __init__(self, v):
        self.v = v

    def __repr__(self):
        return '<%s %r>' % (type(self.v).__name__, getattr(self.v, 'raw_text', None))


_SKIP_RULES = frozenset(['EOL', 'DEDENT_MARK', 'PLACEHOLDER', 'BLOCK_COMMENT'])


def semdump(m):
    """Nested tuples describing directives, fields and values; ignores zero-width tokens, spacing, block-comment
    attribution and trailing blanks of inline comments (exactly the allowances of C06)."""
    if m is None:
        return None
    if isinstance(m, base.RawTokenModel):
        if m.RULE in _SKIP_RULES:
            return None
        if m.RULE == 'INLINE_COMMENT':
            return (m.RULE, m.raw_text.rstrip(' \t'))
        if m.RULE == 'INDENT':
            return (m.RULE,)
        return (m.RULE, m.raw_text)
    if isinstance(m, R.Repeated):
        return ('repeated', tuple(semdump(it) for it in m.items if not isinstance(it, models.BlockComment)))
    if isinstance(m, (models.NumberAddExpr, models.NumberMulExpr)):
        return (m.RULE, tuple(semdump(x) for x in m.raw_operands), tuple(semdump(x) for x in m.raw_ops))
    out = []
    for name in sorted(field_names(type(m))):
        if name in ('_leading_comment', '_trailing_comment'):
            continue
        d = semdump(m.__dict__.get(name))
        if d is not None:
            out.append((name, d))
    return (m.RULE, tuple(out))


_VPROPS = {}
_COMMENT_PROPS = frozenset(['leading_comment', 'trailing_comment'])


def value_prop_names(cls):
    """Names of the value-level properties of a model class (descriptor introspection), comments aside (attribution)."""
    r = _VPROPS.get(cls)
    if r is None:
        from autobean_refactor.models.internal import value_properties as VP
        from autobean_refactor.models import meta_value_internal as MV
        kinds = (VP.required_value_property, VP.optional_string_property, VP.optional_indented_string_property,
                 VP.optional_decimal_property, VP.optional_date_property, MV.optional_meta_value_property)
        r = []
        for name in sorted(dir(cls)):
            if name.startswith('_') or name in _COMMENT_PROPS:
                continue
            d = None
            for k in cls.__mro__:
                if name in vars(k):
                    d = vars(k)[name]
                    break
            if isinstance(d, kinds):
                r.append(name)
        if cls.__name__ == 'Transaction':
            r = [n for n in r if n not in ('string0', 'string1', 'string2')]      # payee / narration say the same, slot-independently
        _VPROPS[cls] = r
    return r


def warm(root):
    """Reads every public attribute and view of every model reachable from root (what any caller may have done before an
    edit): whatever the library memoises on first use is then part of the pre-state of the operation under test."""
    with NoTracing():
        for _, m in walk(root):
            if isinstance(m, (base.RawTokenModel, R.Repeated)):
                if isinstance(m, base.RawTokenModel) and hasattr(type(m), 'value'):
                    try:
                        m.value
                    except Exception:
                        pass
                continue
            for name in dir(type(m)):
                if name.startswith('_'):
                    continue
                d = getattr(type(m), name, None)
                if callable(d) and not isinstance(d, property) and not hasattr(d, '__get__'):
                    continue
                try:
                    v = getattr(m, name)
                except Exception:
                    continue
                if callable(v):
                    continue
                if hasattr(v, '__len__') and hasattr(v, '__iter__') and not isinstance(v, (str, bytes, tuple)):
                    try:
                        len(v), list(v)
                        if hasattr(v, 'keys'):
                            list(v.keys())
                    except Exception:
                        pass


def _plain(v):
    if isinstance(v, base.RawModel):
        return ('model', type(v).__name__, text_of(v))
    return (type(v).__name__, str(v)) if v is not None else None


def valuedump(m):
    """What the value-level API SAYS: nested tuples of every value-level property of every model (token values included),
    block comments and their attribution aside.  Compared between the edited model and the re-parse of its printed text."""
    if m is None:
        return None
    if isinstance(m, base.RawTokenModel):
        if m.RULE in _SKIP_RULES or m.RULE == 'INLINE_COMMENT' or m.RULE == 'INDENT':
            return None
        if hasattr(type(m), 'value'):
            try:
                return (m.RULE, _plain(m.value))
            except Exception as e:
                return (m.RULE, 'raises', type(e).__name__)
        return None
    if isinstance(m, R.Repeated):
        return ('repeated', tuple(valuedump(it) for it in m.items if not isinstance(it, models.BlockComment)))
    out = []
    if hasattr(type(m), 'value') and isinstance(m, (models.NumberExpr, models.NumberAddExpr, models.NumberMulExpr, models.NumberUnaryExpr, models.NumberParenExpr)):
        try:
            out.append(('.value', _plain(m.value)))
        except Exception as e:
            out.append(('.value', 'raises', type(e).__name__))
    if isinstance(m, (models.NumberAddExpr, models.NumberMulExpr)):
        return (m.RULE, tuple(out), tuple(valuedump(x) for x in m.raw_operands))
    for name in value_prop_names(type(m)):
        try:
            v = getattr(m, name)
        except Exception as e:
            out.append((name, 'raises', type(e).__name__))
            continue
        if name == 'inline_comment' and isinstance(v, str):
            v = v.rstrip(' \t')
        out.append((name, _plain(v)))
    kids = []
    for name in sorted(field_names(type(m))):
        if name in ('_leading_comment', '_trailing_comment'):
            continue
        d = valuedump(m.__dict__.get(name))
        if d is not None:
            kids.append((name, d))
    return (m.RULE, tuple(out), tuple(kids))


def comments_of(store):
    """Comment LINES in document order: two adjacent comment tokens re-lex as one multi-line comment, which is
    attribution, not content."""
    return [line for t in store if isinstance(t, models.BlockComment) for line in t.raw_text.split('\n')]


def reparse_equivalent(root, cls=models.File, what='reparse'):
    """C06: print -> parse -> same directives/fields/values as the edited in-memory model."""
    with NoTracing():
        text = realize(text_of(root))
        try:
            again = PARSER.parse(text, cls)
        except Exception as e:
            raise Fail('%s: printed document no longer parses: %r: %r' % (what, text, e))
        a, b = semdump(root), semdump(again)
        if a != b:
            raise Fail('%s: re-parsed document differs from the edited model: text %r\n model   %r\n reparse %r' % (what, text, a, b))
        ca, cb = comments_of(root.token_store), comments_of(again.token_store)
        if ca != cb:
            raise Fail('%s: block comments differ after re-parse: %r vs %r (text %r)' % (what, ca, cb, text))
        tokens_consistent(root.token_store, what=what)
        va, vb = valuedump(root), valuedump(again)
        if va != vb:
            raise Fail('%s: the value-level properties of the edited model say something else than those of its re-parsed text: %s (text %r)' % (what, _first_diff(va, vb), text))
        return again


def tokens_consistent(store, what='tokens'):
    """Every token's value and raw text describe each other (C12's statement, asserted on whole documents after edits): for each
    token class with a codec, _parse_value(raw_text) equals what the token says its value (and indent) is."""
    with NoTracing():
        for t in store:
            cls = type(t)
            if not hasattr(cls, '_parse_value') or not t.raw_text:
                continue
            try:
                meaning = cls._parse_value(t.raw_text)
            except Exception as e:
                raise Fail('%s: token %r no longer parses as a %s: %r' % (what, t.raw_text, cls.__name__, e))
            says = (t.indent, t.value) if isinstance(t, models.BlockComment) else t.value
            if meaning != says:
                raise Fail('%s: token %s with text %r says its value is %r but the text means %r' % (what, cls.__name__, t.raw_text, says, meaning))


def _first_diff(a, b, path=''):
    if type(a) is not type(b) or not isinstance(a, tuple):
        return '%s: model %r, re-parse %r' % (path or 'root', a, b)
    if len(a) != len(b):
        return '%s: %d vs %d entries: model %r, re-parse %r' % (path or 'root', len(a), len(b), a, b)
    for k, (x, y) in enumerate(zip(a, b)):
        if x != y:
            return _first_diff(x, y, path + ('/%s' % (x[0] if isinstance(x, tuple) and x and isinstance(x[0], str) else k)))
    return 'equal'


class Snapshot:
    """Token identities and texts of a store at one moment (untraced; texts must be concrete)."""
    def __init__(self, store):
        with NoTracing():
            self.tokens = list(store)
            self.texts = [t.raw_text for t in self.tokens]
            self.index = {id(t): i for i, t in enumerate(self.tokens)}

    def text(self):
        return ''.join(self.texts)


def window(before, after, by_text=False):
    """Longest common prefix/suffix by identity (and, with by_text, unchanged text): returns (p, x, y, s) = lengths of prefix,
    removed, inserted, suffix."""
    nb, na = len(before.tokens), len(after.tokens)
    p = 0
    while p < nb and p < na and before.tokens[p] is after.tokens[p] and (not by_text or before.texts[p] == after.texts[p]):
        p += 1
    s = 0
    while s < nb - p and s < na - p and before.tokens[nb - 1 - s] is after.tokens[na - 1 - s] and (not by_text or before.texts[nb - 1 - s] == after.texts[na - 1 - s]):
        s += 1
    return p, nb - p - s, na - p - s, s


def is_separator(t):
    return (not t.raw_text) or t.RULE in ('WHITESPACE', '_NEWLINE', '_COMMA')


def check_window(before, after, parent_first, parent_last, old_tokens, new_tokens, what='window', inplace_ok=False):
    """C03 window rule.  parent_first/parent_last: tokens delimiting the parent BEFORE the edit (identity).
    inplace_ok: a value-level assignment may keep a token of the old child and change its text (the token then belongs to the
    window and must be one of old_tokens); separators never change text in place."""
    with NoTracing():
        p, x, y, s = window(before, after, by_text=inplace_ok)
        nb = len(before.tokens)
        a = before.index[id(parent_first)]
        b = before.index[id(parent_last)]
        if x > 0:
            check(a <= p and p + x <= b + 1, what, 'tokens outside the parent were removed or replaced', (p, x), (a, b))
        elif y > 0:
            check(a <= p <= b + 1, what, 'tokens were inserted outside the parent', p, (a, b))
        for i in range(p):
            check(after.texts[i] == before.texts[i], what, 'text of an untouched token changed', i)
        for i in range(s):
            check(after.texts[len(after.texts) - 1 - i] == before.texts[nb - 1 - i], what, 'text of an untouched token changed (suffix)', i)
        old_ids = {id(t) for t in old_tokens}
        new_ids = {id(t) for t in new_tokens}
        # tokens inside the window that are present on both sides (several ranges edited at once) must keep their order
        after_pos = {id(t): i for i, t in enumerate(after.tokens)}
        last = -1
        survivors = set()
        for t in before.tokens[p:p + x]:
            if id(t) in after_pos:
                check(after_pos[id(t)] > last, what, 'surviving tokens were re-ordered', R_(t))
                last = after_pos[id(t)]
                survivors.add(id(t))
                check(after.texts[after_pos[id(t)]] == before.texts[before.index[id(t)]] or (inplace_ok and id(t) in old_ids and t.raw_text != ''),
                      what, 'text of a surviving token changed', R_(t))
        for t in before.tokens[p:p + x]:
            if id(t) not in survivors:
                check(id(t) in old_ids or is_separator(t), what, 'a token that is neither the old child nor a separator disappeared', R_(t))
        for t in after.tokens[p:p + y]:
            if id(t) not in survivors:
                check(id(t) in new_ids or is_separator(t), what, 'a token that is neither the new child nor a separator appeared', R_(t))


TEMPLATES = {
    'Option': ['option "title" "x"', 'option "title" "x" ; ic'],
    'Include': ['include "a.bean"'],
    'Plugin': ['plugin "p"', 'plugin "p" "cfg"'],
    'Pushtag': ['pushtag #t'], 'Poptag': ['poptag #t'],
    'Pushmeta': ['pushmeta kk: 1', 'pushmeta kk:'], 'Popmeta': ['popmeta kk:'],
    'IgnoredLine': ['* heading'],
    'Balance': ['2000-01-01 balance Assets:A 1+2 ~ 0.01 USD ; ic\n  kk: "v"', '2000-01-01 balance Assets:A 1 USD'],
    'Close': ['2000-01-01 close Assets:A\n  kk: 1\n  ; c\n  k2: TRUE'],
    'Commodity': ['2000-01-01 commodity USD'],
    'Pad': ['2000-01-01 pad Assets:A Equity:B'],
    'Event': ['2000-01-01 event "a" "b"'],
    'Query': ['2000-01-01 query "a" "b"'],
    'Price': ['2000-01-01 price USD 1.5 EUR'],
    'Note': ['2000-01-01 note Assets:A "n" #a ^b #c', '2000-01-01 note Assets:A "n"'],
    'Document': ['2000-01-01 document Assets:A "p" ^l'],
    'Open': ['2000-01-01 open Assets:A USD, EUR "STRICT"', '2000-01-01 open Assets:A'],
    'Custom': ['2000-01-01 custom "t" "s" 2000-01-02 TRUE 1 USD 2 Assets:A'],
    'Transaction': [
        '2000-01-01 * "p" "n" #t ^l ; ic\n  kk: 1\n  ! Assets:A  1 USD {2 EUR, 2000-01-02, "lb", *} @ 3 GBP ; pic\n    mm: "x"\n  ; between\n  Assets:B',
        '2000-01-01 txn\n  Assets:A  -1 USD {{2 EUR}} @@ 3 GBP\n  Assets:B  1 USD',
        '2000-01-01 * "n"\r\n  Assets:A',
    ],
    'Posting': ['  Assets:A  1 USD {1 # 2 EUR} @ 3 GBP ; c\n    kk: 1', '  Assets:A'],
    'MetaItem': ['  kk: Assets:A', '  kk:', '  kk: NULL ; c'],
    'CostSpec': ['{}', '{{}}', '{1}', '{{1}}', '{USD}', '{{USD}}', '{1 USD}', '{{1 USD}}', '{1 # 2 USD}', '{# 2 USD}', '{1 # USD}',
                 '{2000-01-01, "l", *}', '{1 USD, 2000-01-01, "l"}', '{{1 USD, *}}'],
    'NumberExpr': ['2', '2+3', '2 * 3', '-2', '(2+3)', '2-3*5', '7/2 - 1', '-(2+3)', '+ 2'],
    'Amount': ['1 USD'], 'Tolerance': ['~ 0.1'], 'UnitPrice': ['@ 1 USD', '@', '@ USD'], 'TotalPrice': ['@@ 1 USD'],
    'CompoundAmount': ['1 # 2 USD'],
    'File': ['; head\n\n2000-01-01 open Assets:A\n; tr\n\n; alone\n\n* ign\n2000-01-02 *\n  Assets:A  1 USD\n  Assets:B\n', '', '\n', '; only'],
}
DIRECTIVES = ['Option', 'Include', 'Plugin', 'Pushtag', 'Poptag', 'Pushmeta', 'Popmeta', 'IgnoredLine', 'Balance', 'Close', 'Commodity',
              'Pad', 'Event', 'Query', 'Price', 'Note', 'Document', 'Open', 'Custom', 'Transaction']


def embed(template):
    """A directive template between two neutral directives, so 'outside the parent' is never empty."""
    return PRE + template + '\n' + POST


def selftest():
    """Calibration on the unchanged semantics: every template parses as its class in both attribution modes, prints
    back, satisfies the tree invariant, and its semantic dump survives print->parse."""
    n = 0
    try:
        for name, texts in TEMPLATES.items():
            cls = getattr(models, name)
            for t in texts:
                for acc in (True, False):
                    m = PARSER.parse(t, cls, auto_claim_comments=acc)
                    if text_of(m) != t:
                        return False, 'template %s %r does not print back' % (name, t)
                    tree_invariant(m, what='template %s %r' % (name, t), whole_store=True)
                    n += 1
        for name in DIRECTIVES:
            for t in TEMPLATES[name]:
                f = PARSER.parse(embed(t), models.File)
                tree_invariant(f, what='embedded %s' % name)
                reparse_equivalent(f, what='embedded %s' % name)
                n += 1
    except Exception as e:
        return False, 'docenv calibration failed: %r' % (e,)
    return True, '%d template checks' % n
