"""Scheduler / verdict logic shared by every check.

    python -m symx.run <PROPERTY_ID> [--tier quick|thorough] [--only REGEX] [--jobs N] [--budget SECONDS]

* enumerates the cells registered for the property and tier (harness modules listed in checks/registry.py),
* runs each cell in its own CrossHair worker process (symx/worker.py) on up to N cores,
* replays every counterexample natively against /repo (no tracing, real `re`, real lark),
* matches reproduced violations against known_findings.json,
* writes evidence/<ID>.json and prints VIOLATION / KNOWN-FINDING lines.

Exit codes: 0 no violation in anything explored; 1 at least one replayed violation that is not a known
finding; 3 harness error (vacuity twin not refuted, worker crash on every cell, encoding self-test failed).
"""
import argparse
import concurrent.futures
import hashlib
import importlib
import json
import os
import random
import re
import subprocess
import sys
import time

VERIF = os.path.dirname(os.path.dirname(os.path.abspath(__file__)))
REPO = os.environ.get('SYMX_REPO', '/repo')
for p in (VERIF, REPO):
    if p in sys.path:
        sys.path.remove(p)
sys.path.insert(0, VERIF)
sys.path.insert(0, REPO)

PY = sys.executable
EXIT_OK, EXIT_VIOLATION, EXIT_HARNESS = 0, 1, 3


def log(*a):
    print(*a, file=sys.stderr, flush=True)


QUICK_START_S = 420
QUICK_CELL_S = 400


def _worker(args, wall_timeout):
    env = dict(os.environ)
    env['SYMX_REPO'] = REPO
    env.pop('SYMX_NATIVE', None)
    env['PYTHONHASHSEED'] = '0'
    t0 = time.time()
    try:
        p = subprocess.run([PY, '-m', 'symx.worker'] + args, cwd=VERIF, env=env, capture_output=True, text=True,
                           timeout=wall_timeout)
        out, err, rc = p.stdout, p.stderr, p.returncode
    except subprocess.TimeoutExpired as e:
        out = e.stdout.decode() if isinstance(e.stdout, bytes) else (e.stdout or '')
        err = e.stderr.decode() if isinstance(e.stderr, bytes) else (e.stderr or '')
        rc = 'timeout'
    results = []
    for line in out.splitlines():
        if line.startswith('RESULT '):
            try:
                results.append(json.loads(line[7:]))
            except Exception:
                pass
    hits = sorted({line.split()[1] for line in err.splitlines() if line.startswith('KNOWN-FINDING-HIT ') and len(line.split()) > 1})
    for r in results:
        r['known_hits'] = hits
    return results, err[-3000:], rc, time.time() - t0


def analyze_cell(module, cell, spec, scale, cap=None):
    ct = float(spec.get('timeout', 300)) * scale
    if cap is not None:
        ct = min(ct, cap)
    pt = float(spec.get('path_timeout', 60))
    results, err, rc, wall = _worker(['analyze', module, str(ct), str(pt), cell], ct * 3 + 120)
    if results:
        r = results[0]
    else:
        r = {'cell': cell, 'module': module, 'status': 'error', 'detail': 'worker produced no result (rc=%s): %s' % (rc, err[-1500:])}
    r['timeout_s'] = ct
    return r


def replay_cell(module, cell, args):
    results, err, rc, wall = _worker(['replay', module, cell, json.dumps(args)], 600)
    if results:
        return results[0]
    return {'reproduced': None, 'detail': 'replay worker produced no result (rc=%s): %s' % (rc, err[-1500:])}


def load_known():
    path = os.path.join(VERIF, 'known_findings.json')
    if not os.path.exists(path):
        return []
    with open(path) as f:
        data = json.load(f)
    return data.get('findings', [])


def match_known(known, prop, module, cell, args):
    """A finding matches when property, cell-name regex and the argument predicate all match."""
    for k in known:
        if k.get('property') != prop:
            continue
        if not re.fullmatch(k.get('cell', '.*'), module.split('.')[-1] + ':' + cell):
            continue
        pred = k.get('where', 'True')
        try:
            if eval(pred, {'__builtins__': {}}, dict(args or {})):
                return k
        except Exception:
            continue
    return None


def blob_hashes(files):
    out = {}
    for f in files:
        path = os.path.join(REPO, f)
        try:
            with open(path, 'rb') as fh:
                data = fh.read()
            out[f] = hashlib.sha1(b'blob %d\0' % len(data) + data).hexdigest()
        except OSError:
            out[f] = 'missing'
    return out


def main(argv=None):
    ap = argparse.ArgumentParser()
    ap.add_argument('prop')
    ap.add_argument('--tier', default=os.environ.get('VERIF_TIER', 'quick'))
    ap.add_argument('--only', default=None)
    ap.add_argument('--jobs', type=int, default=int(os.environ.get('SYMX_JOBS', '0')) or (os.cpu_count() or 4))
    ap.add_argument('--budget', type=float, default=None, help='wall-clock budget for starting cells (s)')
    ap.add_argument('--scale', type=float, default=float(os.environ.get('SYMX_TIMEOUT_SCALE', '1')))
    ap.add_argument('--no-evidence', action='store_true')
    a = ap.parse_args(argv)
    prop, tier = a.prop, a.tier
    seed = int(os.environ.get('VERIF_SEED', '0') or 0)
    t_start = time.time()

    from checks import registry
    pinfo = registry.PROPERTIES[prop]
    budget = a.budget if a.budget is not None else pinfo.get('budget', {}).get(tier, 900 if tier == 'quick' else 3600)
    # the quick tier is the check run on every change: it must end well inside 15 minutes whatever the machine load, so no cell
    # is started after QUICK_START_S and no cell runs longer than QUICK_CELL_S of CPU (cells cut off are reported inconclusive / not run)
    cell_cap = None
    if tier == 'quick' and a.budget is None:
        budget = min(budget, QUICK_START_S)
        cell_cap = QUICK_CELL_S

    cells = []
    encodes, stubs, bounds_notes, files = [], [], [], []
    for modname in pinfo['modules']:
        mod = importlib.import_module(modname)
        if hasattr(mod, 'selftest'):
            ok, detail = mod.selftest()
            if not ok:
                log('HARNESS-ERROR: encoding self-test failed in', modname, detail)
                return EXIT_HARNESS
        encodes += getattr(mod, 'ENCODES', [])
        stubs += getattr(mod, 'STUBS', [])
        files += getattr(mod, 'FILES', [])
        bounds_notes += getattr(mod, 'OUTSIDE', [])
        for name, spec in mod.CELLS.items():
            tiers = spec['tiers'].get(prop, ()) if isinstance(spec['tiers'], dict) else spec['tiers']
            if tier not in tiers:
                continue
            if a.only and not re.search(a.only, name):
                continue
            cells.append((modname, name, spec))
    if not cells:
        log('HARNESS-ERROR: no cells for', prop, tier)
        return EXIT_HARNESS
    rnd = random.Random(seed)
    rnd.shuffle(cells)
    cells.sort(key=lambda c: -float(c[2].get('cost', c[2].get('timeout', 300))))

    known = load_known()
    results = []
    not_run = []
    deadline = t_start + budget

    def job(c):
        modname, name, spec = c
        if time.time() > deadline:
            return (c, None)
        return (c, analyze_cell(modname, name, spec, a.scale, cell_cap))

    with concurrent.futures.ThreadPoolExecutor(max_workers=a.jobs) as ex:
        for c, r in ex.map(job, cells):
            if r is None:
                not_run.append(c[1])
                continue
            results.append((c, r))
            log('[%s] %-58s %-10s paths=%-6s cpu=%ss' % (prop, c[1], r.get('status'), r.get('paths'), r.get('cpu_s')))

    violations, known_hits, artefacts, inconclusive, harness_errors = [], [], [], [], []
    confirmed = twins_ok = 0
    replays = 0
    os.makedirs(os.path.join(VERIF, 'replays', prop), exist_ok=True)
    for (modname, name, spec), r in results:
        st = r.get('status')
        is_twin = bool(spec.get('twin'))
        if is_twin:
            if st == 'refuted':
                twins_ok += 1
            else:
                harness_errors.append('vacuity twin %s was not refuted (status %s): the harness may never reach its assertion' % (name, st))
            continue
        if st == 'confirmed':
            confirmed += 1
        elif st == 'refuted':
            args = r.get('cex')
            if args is None:
                inconclusive.append((name, 'counterexample arguments could not be parsed: ' + r.get('cex_message', '')[:300]))
                continue
            rp = replay_cell(modname, name, args)
            replays += 1
            if rp.get('reproduced') is True:
                k = match_known(known, prop, modname, name, args)
                rec = {'property': prop, 'module': modname, 'cell': name, 'args': args, 'bounds': spec.get('bounds'),
                       'symbolic_message': r.get('cex_message'), 'native_replay': rp.get('detail'),
                       'description': rp.get('description'),
                       'how_to_replay': '%s -m symx.worker replay %s %s %r' % ('.venv/bin/python', modname, name, json.dumps(args))}
                if k is not None:
                    known_hits.append((k, rec))
                else:
                    path = os.path.join(VERIF, 'replays', prop, name + '.json')
                    with open(path, 'w') as f:
                        json.dump(rec, f, indent=1)
                    violations.append((path, rec))
            elif rp.get('reproduced') is False:
                artefacts.append((name, args, r.get('cex_message', '')[:300]))
                inconclusive.append((name, 'counterexample did not reproduce natively (tool artefact)'))
            else:
                harness_errors.append('replay of %s failed: %s' % (name, rp.get('detail', '')[:500]))
        elif st in ('unknown', 'pre_unsat'):
            inconclusive.append((name, {'unknown': 'path tree not exhausted within %ss CPU' % r.get('timeout_s'),
                                        'pre_unsat': 'no path met the precondition'}[st]))
        else:
            inconclusive.append((name, 'worker error: ' + str(r.get('detail', ''))[-400:]))

    for k, rec in known_hits:
        print('KNOWN-FINDING: property=%s %s [cell %s args %s]' % (prop, k.get('what_fails', ''), rec['cell'], json.dumps(rec['args'])))
    inline_hits = sorted({h for _, r in results for h in r.get('known_hits', [])})
    for h in inline_hits:
        k = next((x for x in known if x.get('id') == h), None)
        if k is not None and k.get('property') == prop:
            print('KNOWN-FINDING: property=%s %s' % (prop, k.get('what_fails', h)))
    for path, rec in violations:
        print('VIOLATION property=%s replay=%s' % (prop, path))
        log('  cell', rec['cell'], 'args', rec['args'])
        log('  ', (rec.get('description') or rec.get('native_replay') or '')[-800:])
    for h in harness_errors:
        log('HARNESS-ERROR:', h)

    n_cells = len([1 for (m, n, s), r in results if not s.get('twin')])
    if n_cells and not violations and len(inconclusive) * 2 > n_cells:
        harness_errors.append('%d of %d cells were inconclusive: the check decided too little to count as a pass' % (len(inconclusive), n_cells))
        log('HARNESS-ERROR:', harness_errors[-1])
    worker_errors = [n for n, why in inconclusive if why.startswith('worker error')]
    if n_cells and len(worker_errors) == n_cells:
        harness_errors.append('every cell failed with a worker error: ' + inconclusive[0][1])
        log('HARNESS-ERROR:', harness_errors[-1])

    paths = sum(int(r.get('paths') or 0) for (m, n, s), r in results if r.get('status') == 'confirmed' and not s.get('twin'))
    all_paths = sum(int(r.get('paths') or 0) for _, r in results)
    queries = sum(int(r.get('solver_queries') or 0) for _, r in results)
    solver_s = sum(float(r.get('solver_s') or 0) for _, r in results)
    cpu_s = sum(float(r.get('cpu_s') or 0) for _, r in results)
    samples = []
    for (modname, name, spec), r in results[:]:
        if len(samples) >= 6:
            break
        samples.append({'cell': modname + ':' + name, 'bounds': spec.get('bounds'), 'verdict': r.get('status'),
                        'paths': r.get('paths'), 'solver_queries': r.get('solver_queries'),
                        'counterexample': r.get('cex') if r.get('status') == 'refuted' else None,
                        'twin': bool(spec.get('twin'))})
    for (modname, name, spec), r in results:
        if spec.get('twin'):
            samples.append({'cell': modname + ':' + name, 'twin': True, 'verdict': r.get('status'), 'counterexample': r.get('cex')})
            break
    evidence = {
        'property_id': prop,
        'tier': tier,
        'seed': seed,
        'level': 'model_checking',
        'wall_s': round(time.time() - t_start, 2),
        'violations': len(violations),
        'coverage': {
            'states': max(paths, 1) if confirmed else max(all_paths, 1),
            'transitions': max(queries, 1),
            'traces_validated_against_impl': replays,
            'samples': samples,
            'explanation': 'states = execution paths of the real code exhausted by CrossHair in cells whose verdict is '
                           '"Confirmed over all paths" (each path covers every input satisfying its path condition); '
                           'transitions = z3 satisfiability queries discharged; traces_validated = counterexamples replayed natively.',
            'cells_total': n_cells,
            'cells_confirmed': confirmed,
            'cells_violated': len(violations),
            'cells_known_finding': len(known_hits),
            'cells_inconclusive': len(inconclusive),
            'cells_not_run': len(not_run),
            'vacuity_twins_refuted': twins_ok,
            'paths_all_cells': all_paths,
            'solver_queries': queries,
            'solver_time_s': round(solver_s, 1),
            'cpu_time_s': round(cpu_s, 1),
            'inconclusive': [{'cell': n, 'why': w} for n, w in inconclusive][:60],
            'not_run': not_run[:60],
            'tool_artefacts': [{'cell': n, 'args': ar, 'message': msg} for n, ar, msg in artefacts][:20],
            'known_findings_seen': sorted(set([k.get('id') for k, _ in known_hits] + inline_hits)),
            'cells': [{'cell': n, 'family': s.get('family'), 'bounds': s.get('bounds'), 'verdict': r.get('status'),
                       'paths': r.get('paths'), 'cpu_s': r.get('cpu_s'), 'solver_queries': r.get('solver_queries'),
                       'solver_s': r.get('solver_s')} for (m, n, s), r in results],
            'functions_encoded': sorted(set(encodes)),
            'source_blobs': blob_hashes(sorted(set(files))),
            'bounds_outside_claim': bounds_notes,
            'engine': 'crosshair-tool 0.0.110 (symbolic execution of the real Python code) + z3-solver 5.1.0',
            'exhaustive': False,
        },
        'assumptions': sorted(set(stubs)) + pinfo.get('assumptions', []),
    }
    if not a.no_evidence and not a.only:
        os.makedirs(os.path.join(VERIF, 'evidence'), exist_ok=True)
        with open(os.path.join(VERIF, 'evidence', prop + '.json'), 'w') as f:
            json.dump(evidence, f, indent=1)
    log('[%s] tier=%s cells=%d confirmed=%d violations=%d known=%d inconclusive=%d not_run=%d twins_ok=%d paths=%d queries=%d wall=%.0fs'
        % (prop, tier, n_cells, confirmed, len(violations), len(known_hits), len(inconclusive), len(not_run), twins_ok, all_paths, queries,
           time.time() - t_start))
    for n, w in inconclusive[:20]:
        log('  inconclusive:', n, '--', w[:200])
    if violations:
        return EXIT_VIOLATION
    if harness_errors:
        return EXIT_HARNESS
    return EXIT_OK


if __name__ == '__main__':
    sys.exit(main())
