import sys
import holes_env, lk3
from lk3 import *
TPL = '; lead\n2000-01-01 * "n" ; ic\n  kk: 1\n  Assets:A  1 USD\n    mm: 2\n  ; c\n  Assets:B\n; trail\n\n2000-01-02 open Assets:A\n'
POS = [0, 7, 19, 25, 26, 28, 34, 35, 52, 53, 61, 67, 69, 79, 80, 87, 88]
def mk(pos):
    def cell(c0: int, acc: bool) -> bool:
        """
        pre: 0 <= c0 <= 0x10FFFF
        post: _
        """
        return check(build(TPL[:pos], [c0], TPL[pos:]), acc)
    cell.__name__ = f'cell_{pos}'
    return cell
for _p in POS:
    globals()[f'cell_{_p}'] = mk(_p)
