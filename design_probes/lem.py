from typing import Optional
from autobean_refactor.models.internal import indexes, value_properties as VP

class A: pass
class B: pass

def idx_int(i: int, n: int) -> bool:
    """
    pre: 0 <= n <= 5
    post: _
    """
    ref = list(range(n))
    try:
        r = indexes.range_from_index(i, n)
    except IndexError:
        return not (-n <= i < n)
    return -n <= i < n and list(r) == [ref[i]]

def idx_slice(a: Optional[int], b: Optional[int], s: Optional[int], n: int) -> bool:
    """
    pre: 0 <= n <= 5
    pre: s is None or s != 0
    post: _
    """
    ref = list(range(n))
    sl = slice(a, b, s)
    r = indexes.range_from_index(sl, n)
    ok = [x for x in r] == [x for x in ref[sl]]
    if r.step == 1:
        back = indexes.slice_from_range(r)
        ok = ok and [x for x in ref[back]] == [x for x in ref[sl]]
    return ok

def splice_step(k0: bool, k1: bool, k2: bool, k3: bool, l: int, r: int, v0: bool, v1: bool, nv: int, n: int) -> bool:
    """
    pre: 0 <= n <= 4 and 0 <= nv <= 2
    pre: 0 <= l <= r <= n
    post: _
    """
    kinds = [k0, k1, k2, k3][:n]
    raw = [A() if k else B() for k in kinds]
    table = [i for i, x in enumerate(raw) if isinstance(x, A)]
    h = VP._RepeatedValueWrapperUpdateHandler(raw, A, table)
    values = [A() if v else B() for v in [v0, v1][:nv]]
    raw[l:r] = values
    h.handle_splice(l, r, values)
    return table == [i for i, x in enumerate(raw) if isinstance(x, A)]
