from autobean_refactor.models.internal import indexes, value_properties as VP
class A: pass
class B: pass

def splice_step(k0: bool, k1: bool, k2: bool, k3: bool, l: int, r: int, v0: bool, v1: bool, nv: int) -> bool:
    """
    pre: 0 <= nv <= 2
    pre: 0 <= l <= r <= 4
    post: _
    """
    n = 4
    raw = [A() if k else B() for k in [k0, k1, k2, k3]]
    table = [i for i, x in enumerate(raw) if isinstance(x, A)]
    h = VP._RepeatedValueWrapperUpdateHandler(raw, A, table)
    values = [A() if v else B() for v in [v0, v1][:nv]]
    new = [raw[i] for i in range(l)] + values + [raw[i] for i in range(r, n)]
    raw[:] = new
    h.handle_splice(l, r, values)
    return table == [i for i, x in enumerate(raw) if isinstance(x, A)]

def idx_slice(a: int, b: int, s: int, n: int) -> bool:
    """
    pre: 0 <= n <= 4
    pre: -n - 2 <= a <= n + 2 and -n - 2 <= b <= n + 2
    pre: -3 <= s <= 3 and s != 0
    post: _
    """
    ref = list(range(n))
    sl = slice(a, b, s)
    r = indexes.range_from_index(sl, n)
    ok = [x for x in r] == [x for x in ref[sl]]
    if r.step == 1:
        back = indexes.slice_from_range(r)
        ok = ok and [x for x in ref[back]] == [x for x in ref[sl]]
    return ok
