import io, sys
from lark import lexer as lark_lexer
from symre import SymPattern
from autobean_refactor import parser as pl, models, printer
from crosshair import realize
from crosshair.tracers import NoTracing

P = pl.Parser()

_sym_cache = {}
def _sym(t):
    sp = _sym_cache.get(t.name)
    if sp is None:
        sp = _sym_cache[t.name] = SymPattern(t.pattern.to_regexp())
    return sp

def _scanner_match(self, text, pos):
    s = text.text
    assert text.end == len(s)
    for t in self.terminals:
        r = _sym(t).match_end(s, pos)
        if r is not None:
            return s[pos:r[0]], t.name
    return None
lark_lexer.Scanner.match = _scanner_match

class _SplitRE:
    def __init__(self, rx):
        self.sp = SymPattern(rx.pattern, rx.flags)
    def fullmatch(self, s):
        g = self.sp.fullmatch_groups(s)
        if g is None:
            return None
        return _M(s, g)
class _M:
    def __init__(self, s, g): self.s, self.g = s, g
    def groups(self):
        return tuple(self.s[self.g[i][0]:self.g[i][1]] if i in self.g else None for i in (1, 2, 3))
pl.PostLex._NEWLINE_INDENT_COMMENT_SPLIT_RE = _SplitRE(pl.PostLex._NEWLINE_INDENT_COMMENT_SPLIT_RE)

def pr(m):
    return printer.print_model(m, io.StringIO()).getvalue()

def rt3(c0: int, c1: int, c2: int) -> bool:
    """
    pre: 0 <= c0 <= 0x10FFFF and 0 <= c1 <= 0x10FFFF and 0 <= c2 <= 0x10FFFF
    post: _
    """
    s = chr(c0) + chr(c1) + chr(c2)
    try:
        f = P.parse(s, models.File)
    except Exception as e:
        if type(e).__module__.startswith('lark'):
            return True   # rejected by the grammar
        raise
    out = pr(f)
    return out == s and ''.join(t.raw_text for t in f.token_store) == s

if __name__ == '__main__':
    import itertools
    # concrete sanity: stubbed lexer agrees with real results
    for k in range(0, 4):
        for p in itertools.product([';', ' ', '\n', '\r', '*', 'x', '\t'], repeat=k):
            s = ''.join(p)
            try:
                f = P.parse(s, models.File); out = pr(f)
            except Exception as e:
                out = type(e).__name__
            print(repr(s), repr(out)) if out != s and not out.startswith('Unexp') else None
