import io, sys
from lark import lexer as lark_lexer
from lark.parsers import lalr_parser_state, lalr_interactive_parser
from symre import SymPattern, TrackedText
from autobean_refactor import parser as pl, models, printer
from crosshair import realize
from crosshair.tracers import NoTracing, ResumedTracing

P = pl.Parser()
HOLES = []      # list of (start, stop) symbolic index ranges in the text being parsed
SHADOW = ['']   # concrete shadow text with '\0' in holes
STATS = {'native': 0, 'traced': 0}

_sym_cache = {}
def _sym(t):
    sp = _sym_cache.get(t.name)
    if sp is None:
        sp = _sym_cache[t.name] = SymPattern(t.pattern.to_regexp())
    return sp

def _touches(lo, hi):
    for a, b in HOLES:
        if lo < b and hi >= a:
            return True
    return False

def _scanner_match(self, text, pos):
    s = text.text
    with NoTracing():
        shadow = SHADOW[0]
        res = None
        ok = True
        p = realize(pos)
        for t in self.terminals:
            tt = TrackedText(shadow)
            r = _sym(t).match_end(tt, p)
            if tt.hi >= 0 and _touches(tt.lo, tt.hi):
                ok = False
                break
            if r is not None:
                res = (r[0], t.name)
                break
        if ok:
            STATS['native'] += 1
            if res is None:
                return None
    if ok:
        return s[pos:res[0]], res[1]
    STATS['traced'] += 1
    for t in self.terminals:
        r = _sym(t).match_end(s, pos)
        if r is not None:
            return s[pos:r[0]], t.name
    return None
lark_lexer.Scanner.match = _scanner_match

class _SplitRE:
    def __init__(self, rx):
        self.sp = SymPattern(rx.pattern, rx.flags)
    def fullmatch(self, s):
        g = self.sp.fullmatch_groups(s)
        if g is None:
            return None
        return _M(s, g)
class _M:
    def __init__(self, s, g): self.s, self.g = s, g
    def groups(self):
        return tuple(self.s[self.g[i][0]:self.g[i][1]] if i in self.g else None for i in (1, 2, 3))
pl.PostLex._NEWLINE_INDENT_COMMENT_SPLIT_RE = _SplitRE(pl.PostLex._NEWLINE_INDENT_COMMENT_SPLIT_RE)

_orig_feed = lalr_parser_state.ParserState.feed_token
def _feed(self, token, is_end=False):
    with NoTracing():
        return _orig_feed(self, token, is_end)
lalr_parser_state.ParserState.feed_token = _feed
_orig_choices = lalr_interactive_parser.InteractiveParser.choices
def _choices(self):
    with NoTracing():
        return _orig_choices(self)
lalr_interactive_parser.InteractiveParser.choices = _choices

def pr(m):
    return printer.print_model(m, io.StringIO()).getvalue()

def build(pre, hole_chars, post):
    HOLES[:] = [(len(pre), len(pre) + len(hole_chars))]
    SHADOW[0] = pre + '\0' * len(hole_chars) + post
    s = pre
    for c in hole_chars:
        s = s + chr(c)
    return s + post

def check(s, acc):
    try:
        f = P.parse(s, models.File, auto_claim_comments=acc)
    except Exception as e:
        if type(e).__module__.startswith('lark'):
            return True   # rejected by the grammar
        raise
    out = pr(f)
    return out == s and ''.join(t.raw_text for t in f.token_store) == s

def hole1(c0: int) -> bool:
    """
    pre: 0 <= c0 <= 0x10FFFF
    post: _
    """
    return check(build('2000-01-01 *\n', [c0], ' Assets:A\n'), True)

def hole2(c0: int, c1: int) -> bool:
    """
    pre: 0 <= c0 <= 0x10FFFF and 0 <= c1 <= 0x10FFFF
    post: _
    """
    return check(build('2000-01-01 *', [c0, c1], '  Assets:A\n'), True)

if __name__ == '__main__':
    import itertools
    al = [';', ' ', '\n', '\r', '*', 'x', '\t', '\x0c', '"', 'A']
    real = pl.Parser.__new__(pl.Parser)
    for a in al:
        for b in al:
            HOLES[:] = [(12, 14)]
            s = '2000-01-01 *' + a + b + '  Assets:A\n'
            SHADOW[0] = '2000-01-01 *\0\0  Assets:A\n'
            try: r = check(s, True)
            except Exception as e: r = type(e).__name__
            if r is not True: print(repr(a + b), r)
    print(STATS)
