import re, symre
from crosshair.libimpl import decimallib
_PAT = r"""
    (?P<sign>[-+])?
    (
        (?=\d|\.\d)
        (?P<int>\d*)
        (\.(?P<frac>\d*))?
        (E(?P<exp>[-+]?\d+))?
    |
        Inf(inity)?
    |
        (?P<signal>s)?
        NaN
        (?P<diag>\d*)
    )
    \Z
"""
decimallib._parser = symre.sym_match_fn(_PAT, re.VERBOSE | re.IGNORECASE)
