import io
import holes_env
from symre import SymPattern
from crosshair.tracers import NoTracing
from crosshair import realize
from autobean_refactor import parser as parser_lib, models, printer, token_store as ts
P = parser_lib.Parser()
TERM = {t.name: SymPattern(t.pattern.to_regexp()) for t in P._lark.parser.lexer_conf.terminals}
def pr(m): return printer.print_model(m, io.StringIO()).getvalue()
TXT = '; lead\n2000-01-01 * "p" "n" #t ; ic\n  kk: "v"\n  Assets:A  1.50 USD\n; trail\n'
VALUE_CLASSES = (models.EscapedString, models.Tag, models.InlineComment, models.BlockComment, models.Account, models.Currency, models.MetaKey)

def full(rule, s):
    r = TERM[rule].match_end(s, 0)
    return r is not None and r[0] == len(s)

def set_value(i: int, c0: int, c1: int, via_raw: bool) -> bool:
    """
    pre: 0 <= i < 40
    pre: 0 <= c0 <= 0x10FFFF and 0 <= c1 <= 0x10FFFF
    post: _
    """
    with NoTracing():
        for n, v in (('_LOAD_FACTOR', 4), ('_DOUBLE_LOAD_FACTOR', 8), ('_HALF_LOAD_FACTOR', 2), ('_ONE_HALF_LOAD_FACTOR', 6)):
            setattr(ts, n, v)
        f = P.parse(TXT, models.File)
        toks = list(f.token_store)
        before = [t.raw_text for t in toks]
    if i >= len(toks):
        return True
    tok = toks[i]
    if not isinstance(tok, VALUE_CLASSES):
        return True
    # new lexeme of the same class: keep first char of the old text where the class needs it
    old = tok.raw_text
    if isinstance(tok, models.EscapedString): new = '"' + chr(c0) + chr(c1) + '"'
    elif isinstance(tok, models.Tag): new = '#' + chr(c0) + chr(c1)
    elif isinstance(tok, (models.InlineComment, models.BlockComment)): new = ';' + chr(c0) + chr(c1)
    elif isinstance(tok, models.MetaKey): new = 'k' + chr(c0) + chr(c1) + ':'
    else: new = chr(c0) + chr(c1) + ':B' if isinstance(tok, models.Account) else 'U' + chr(c0) + chr(c1)
    if not full(tok.RULE, new):
        return True
    if via_raw:
        tok.raw_text = new
    else:
        tok.value = type(tok).from_raw_text(new).value
    after = [t for t in f.token_store]
    if len(after) != len(toks): return False
    for j, t in enumerate(after):
        if t is not toks[j]: return False
        if j != i and t.raw_text != before[j]: return False
    text = pr(f)
    exp = ''.join(before[:i]) + tok.raw_text + ''.join(before[i+1:])
    if text != exp: return False
    # positions (C08)
    off = 0
    for t in after:
        p = f.token_store.get_position(t)
        if (p.line, p.column) != (exp[:off].count('\n'), off - exp[:off].rfind('\n') - 1): return False
        off += len(t.raw_text)
    return True

def twin(i: int, c0: int, c1: int, via_raw: bool) -> bool:
    """
    pre: 0 <= i < 40
    pre: 0 <= c0 <= 0x10FFFF and 0 <= c1 <= 0x10FFFF
    post: _
    """
    with NoTracing():
        f = P.parse(TXT, models.File); toks = list(f.token_store)
    if i >= len(toks): return True
    tok = toks[i]
    if not isinstance(tok, VALUE_CLASSES): return True
    new = '#' + chr(c0) + chr(c1)
    if isinstance(tok, models.Tag) and full('TAG', new):
        return False
    return True
