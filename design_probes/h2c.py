from h2 import *
def cell_02(i1: int, i2: int) -> bool:
    """
    pre: -6 <= i1 <= 6 and -6 <= i2 <= 6
    post: _
    """
    return hist2(0, i1, 2, i2)
def one_op(op: int, i: int) -> bool:
    """
    pre: 0 <= op <= 4
    pre: -6 <= i <= 6
    post: _
    """
    return hist2(op, i, 4, 0)
