import re, random, itertools
from symre import SymPattern
from autobean_refactor import parser as pl
P = pl.Parser()
terms = P._lark.parser.lexer_conf.terminals
alpha = [';', ' ', '\t', '\r', '\n', '*', 'x', 'A', ':', '"', '\\', '0', '-', '.', ',', '#', '\x0c', 'é', '^', '_', '/', 't', 'n', 'T', 'R', 'U', 'E']
random.seed(1)
bad = 0; tot = 0
for t in terms:
    rx = t.pattern.to_regexp()
    cre = re.compile(rx)
    sp = SymPattern(rx)
    samples = [''.join(p) for k in range(0, 4) for p in itertools.product(alpha[:12], repeat=k)]
    samples += [''.join(random.choice(alpha) for _ in range(random.randint(0, 10))) for _ in range(3000)]
    for s in samples:
        for pos in (0, 1) if len(s) > 1 else (0,):
            m = cre.match(s, pos)
            r = sp.match_end(s, pos)
            tot += 1
            a = m.end() if m else None
            b = r[0] if r else None
            if a != b:
                bad += 1
                if bad < 10: print('MISMATCH', t.name, repr(s), pos, a, b)
            elif m and cre.groups:
                for gi in range(1, cre.groups + 1):
                    ga = m.span(gi); gb = r[1].get(gi, (-1, -1))
                    if ga != gb:
                        bad += 1
                        if bad < 10: print('GROUP', t.name, repr(s), gi, ga, gb)
print(tot, bad)
# PostLex split regex
rx = pl.PostLex._NEWLINE_INDENT_COMMENT_SPLIT_RE
sp = SymPattern(rx.pattern, rx.flags)
for s in [''.join(p) for k in range(0, 5) for p in itertools.product([';', ' ', '\t', '\r', '\n', 'x'], repeat=k)]:
    m = rx.fullmatch(s); g = sp.fullmatch_groups(s)
    assert (m is None) == (g is None), s
    if m:
        for gi in (1, 2, 3):
            assert m.span(gi) == g.get(gi, (-1, -1)), (s, gi, m.span(gi), g)
print('postlex ok')
