import re
from autobean_refactor import models
BC = r'(?:(?m:^)[ \t]+(?s:;[^\r\n]*)(?:\r*\n[ \t]+(?s:;[^\r\n]*))*|(?m:^)(?s:;[^\r\n]*)(?:\r*\n(?s:;[^\r\n]*))*)'
BC_RE = re.compile(BC)
ES_RE = re.compile(r'(?s:".*?(?<!\\)(\\\\)*?")')
TAG_RE = re.compile('#[A-Za-z0-9-_\\/.]+')

def bc_lexeme(c0: int, c1: int, c2: int) -> bool:
    """
    pre: 0 <= c0 <= 0x10FFFF and 0 <= c1 <= 0x10FFFF and 0 <= c2 <= 0x10FFFF
    post: _
    """
    s = chr(c0) + chr(c1) + chr(c2)
    m = BC_RE.match(s)
    if m is None or m.end() != 3:
        return True
    t = models.BlockComment.from_raw_text(s)
    return t.raw_text == s

def es_lexeme(c0: int, c1: int, c2: int) -> bool:
    """
    pre: 0 <= c0 <= 0x10FFFF and 0 <= c1 <= 0x10FFFF and 0 <= c2 <= 0x10FFFF
    post: _
    """
    s = chr(c0) + chr(c1) + chr(c2)
    m = ES_RE.match(s)
    if m is None or m.end() != 3:
        return True
    t = models.EscapedString.from_raw_text(s)
    return t.raw_text == s and models.EscapedString.from_value(t.value).value == t.value

def tag_lexeme(c0: int, c1: int, c2: int) -> bool:
    """
    pre: 0 <= c0 <= 0x10FFFF and 0 <= c1 <= 0x10FFFF and 0 <= c2 <= 0x10FFFF
    post: _
    """
    s = chr(c0) + chr(c1) + chr(c2)
    m = TAG_RE.match(s)
    if m is None or m.end() != 3:
        return True
    t = models.Tag.from_raw_text(s)
    return t.raw_text == s and models.Tag.from_value(t.value).raw_text == s
