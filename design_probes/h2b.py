from h2 import *
def cell_02(i1: int, i2: int) -> bool:
    """
    post: _
    """
    return hist2(0, i1, 2, i2)
def cell_13(i1: int, i2: int) -> bool:
    """
    post: _
    """
    return hist2(1, i1, 3, i2)
