import io, decimal
from typing import Optional
from crosshair.tracers import NoTracing
from crosshair import realize
from autobean_refactor import parser as parser_lib, models, printer
P = parser_lib.Parser()
D = decimal.Decimal
def pr(m):
    return printer.print_model(m, io.StringIO()).getvalue()
FORMS = ['{}', '{{}}', '{1}', '{{1}}', '{USD}', '{{USD}}', '{1 USD}', '{{1 USD}}', '{1 # 2 USD}', '{# 2 USD}', '{1 # USD}',
         '{2000-01-01, "l", *}', '{1 USD, 2000-01-01}']
NUMS = [None, D(5), D(7)]
CURS = [None, 'CAD']

def step(ref, field, val):
    """record-of-optionals reference with documented rejections; returns new ref or None if rejection expected"""
    per, tot, cur = ref
    if field == 0: per = val
    elif field == 1: tot = val
    else: cur = val
    if per is not None and tot is not None and cur is None:
        return None
    return (per, tot, cur)

def cost(form: int, f1: int, v1: int, f2: int, v2: int) -> bool:
    """
    pre: 0 <= form < 13
    pre: 0 <= f1 <= 2 and 0 <= f2 <= 2
    pre: 0 <= v1 <= 2 and 0 <= v2 <= 2
    post: _
    """
    with NoTracing():
        posting = P.parse('    Assets:A  1 XX ' + FORMS[realize(form)], models.Posting)
    c = posting.cost
    ref = (c.number_per, c.number_total, c.currency)
    for f, v in ((f1, v1), (f2, v2)):
        val = (NUMS[v] if f < 2 else CURS[v % 2])
        exp = step(ref, f, val)
        before = pr(posting)
        try:
            if f == 0: c.number_per = val
            elif f == 1: c.number_total = val
            else: c.currency = val
        except ValueError:
            if exp is not None:
                return False
            if pr(posting) != before:
                return False
            continue
        if exp is None:
            return False
        ref = exp
        got = (c.number_per, c.number_total, c.currency)
        if got != ref:
            return False
    return True
