from ts1 import _mk, _check, TEXTS, ts

def cell(a: int, b: int, k: int) -> bool:
    """
    pre: 0 <= a <= b <= 6
    pre: 0 <= k <= 3
    post: _
    """
    n = 6; lf = 2; tx = 1
    _mk(lf)
    ref = [ts.Token(TEXTS[(i * 7 + tx) % 4]) for i in range(n)]
    store = ts.TokenStore.from_tokens(list(ref))
    new = [ts.Token(TEXTS[(i + tx) % 4]) for i in range(k)]
    if a == b:
        if a < n:
            store.insert_before(ref[a], new)
        elif n:
            store.insert_after(ref[n-1], new)
        else:
            store.insert_after(None, new)
    else:
        store.splice(new, ref[a], ref[b-1])
    removed = [ref[i] for i in range(a, b)]
    ref[a:b] = new
    _check(store, ref)
    for t in removed:
        assert t.store_handle is None
    return True
