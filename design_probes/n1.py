import re, decimal
from autobean_refactor import models
NUM_RE = re.compile(r'(?:([0-9]{1,3})(,[0-9]{3})+|[0-9]+)(?:\.[0-9]*)?')

def num_lexeme(c0: int, c1: int, c2: int, c3: int) -> bool:
    """
    pre: 0 <= c0 <= 0x7f and 0 <= c1 <= 0x7f and 0 <= c2 <= 0x7f and 0 <= c3 <= 0x7f
    post: _
    """
    s = chr(c0) + chr(c1) + chr(c2) + chr(c3)
    m = NUM_RE.match(s)
    if m is None or m.end() != 4:
        return True
    t = models.Number.from_raw_text(s)
    r = models.Number._format_value(t.value)
    m2 = NUM_RE.match(r)
    return t.raw_text == s and m2 is not None and m2.end() == len(r)

def num_date(y: int, m: int, d: int) -> bool:
    """
    pre: 1 <= y <= 9999 and 1 <= m <= 12 and 1 <= d <= 28
    post: _
    """
    import datetime
    t = models.Date.from_value(datetime.date(y, m, d))
    return len(t.raw_text) == 10
