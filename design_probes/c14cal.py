import io
from autobean_refactor import parser as pl, models, printer
from autobean_refactor.models.internal import fields as F, repeated as R
P = pl.Parser()
def owners(root):
    """map id(comment) -> list of owner descriptions"""
    out = {}
    def walk(m, path):
        if isinstance(m, models.RawTokenModel): return
        if isinstance(m, R.Repeated):
            for i, it in enumerate(m.items):
                if isinstance(it, models.BlockComment):
                    out.setdefault(id(it), []).append(f'{path}[{i}]')
                else: walk(it, f'{path}[{i}]')
            return
        for name in dir(type(m)):
            d = getattr(type(m), name, None)
            if isinstance(d, F.field):
                v = m.__dict__.get(name)
                if v is None: continue
                if isinstance(v, models.BlockComment):
                    out.setdefault(id(v), []).append(f'{path}.{name}')
                else: walk(v, f'{path}.{name}')
        for extra in ('_raw_operands',):
            for i, v in enumerate(getattr(m, extra, ())): walk(v, f'{path}.{extra}[{i}]')
    walk(root, type(root).__name__)
    return out
def show(text):
    f = P.parse(text, models.File)
    ow = owners(f)
    print(repr(text))
    for t in f.token_store:
        if isinstance(t, models.BlockComment):
            print('   ', repr(t.raw_text), t.claimed, ow.get(id(t)))
L = [
 '; c\n2000-01-01 open Assets:A\n',
 '2000-01-01 open Assets:A\n; c\n',
 '2000-01-01 open Assets:A\n; c\n2000-01-02 open Assets:B\n',
 '2000-01-01 open Assets:A\n\n; c\n2000-01-02 open Assets:B\n',
 '2000-01-01 open Assets:A\n; c\n\n2000-01-02 open Assets:B\n',
 '2000-01-01 open Assets:A\n\n; c\n\n2000-01-02 open Assets:B\n',
 '2000-01-01 open Assets:A\n  ; c\n2000-01-02 open Assets:B\n',
 '2000-01-01 open Assets:A\n  ; c\n',
 '2000-01-01 open Assets:A\n  aa: 1\n  ; c\n',
 '2000-01-01 open Assets:A\n  ; c\n  aa: 1\n',
 '2000-01-01 *\n  Assets:A\n  ; c\n  Assets:B\n',
 '2000-01-01 *\n  Assets:A\n  ; c\n',
 '2000-01-01 *\n  Assets:A\n  ; c\n2000-01-02 open Assets:B\n',
 '2000-01-01 *\n  Assets:A\n; c\n2000-01-02 open Assets:B\n',
 '2000-01-01 *\n  Assets:A\n    aa: 1\n    ; c\n  Assets:B\n',
 '2000-01-01 *\n  ; c\n  Assets:A\n',
 '2000-01-01 *\n  aa: 1\n  ; c\n  Assets:A\n',
 '; c1\n; c2\n\n; c3\n2000-01-01 open Assets:A\n',
 '2000-01-01 open Assets:A\n; c1\n; c2\n',
 '; only\n',
 '\n; c\n\n',
 '* ignored\n; c\n',
]
for t in L: show(t)
