from autobean_refactor import token_store as ts

def _mk(lf):
    ts._LOAD_FACTOR = lf
    ts._DOUBLE_LOAD_FACTOR = lf * 2
    ts._HALF_LOAD_FACTOR = lf // 2
    ts._ONE_HALF_LOAD_FACTOR = lf + lf // 2

TEXTS = ['a', '\n', '', 'bc\nd']

def _check(store, ref):
    assert len(store) == len(ref)
    got = list(store)
    assert len(got) == len(ref)
    for a, b in zip(got, ref):
        assert a is b
    for i, t in enumerate(ref):
        assert store.get_index(t) == i
        p = store.get_prev(t)
        assert p is (ref[i-1] if i else None)
        n = store.get_next(t)
        assert n is (ref[i+1] if i + 1 < len(ref) else None)
    # positions
    text = ''
    for t in ref:
        pos = store.get_position(t)
        line = text.count('\n')
        col = len(text) - text.rfind('\n') - 1
        assert (pos.line, pos.column) == (line, col)
        text += t.raw_text

def splice_once(n: int, lf: int, a: int, b: int, k: int, tx: int) -> bool:
    """
    pre: 2 <= lf <= 3
    pre: 0 <= n <= 7
    pre: 0 <= a <= b <= n
    pre: 0 <= k <= 3
    pre: 0 <= tx < 4
    post: _
    """
    _mk(lf)
    ref = [ts.Token(TEXTS[(i * 7 + tx) % 4]) for i in range(n)]
    store = ts.TokenStore.from_tokens(list(ref))
    new = [ts.Token(TEXTS[(i + tx) % 4]) for i in range(k)]
    # remove ref[a:b], insert new
    if a == b:
        if a < n:
            store.insert_before(ref[a], new)
        elif n:
            store.insert_after(ref[n-1], new)
        else:
            store.insert_after(None, new)
    else:
        store.splice(new, ref[a], ref[b-1])
    removed = [ref[i] for i in range(a, b)]
    ref[a:b] = new
    _check(store, ref)
    for t in removed:
        assert t.store_handle is None
    return True
