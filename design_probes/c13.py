import io, decimal, copy
from crosshair.tracers import NoTracing
from crosshair import realize
from autobean_refactor import parser as parser_lib, models, printer
P = parser_lib.Parser()
D = decimal.Decimal
def pr(m):
    return printer.print_model(m, io.StringIO()).getvalue()
SHAPES = ['2', '2+3', '2*3', '-2', '(2+3)', '2-3*5', '7/2-1', '-(2+3)']
CONST = [D(11), 13, D('-1.5')]

def binop(sa: int, sb: int, op: int, kind: int) -> bool:
    """
    pre: 0 <= sa < 8 and 0 <= sb < 11
    pre: 0 <= op < 4 and 0 <= kind < 2
    post: _
    """
    with NoTracing():
        a = P.parse(SHAPES[realize(sa)], models.NumberExpr)
        sbr = realize(sb)
        b = P.parse(SHAPES[sbr], models.NumberExpr) if sbr < 8 else CONST[sbr - 8]
        va = a.value
        vb = b.value if sbr < 8 else D(b)
        ta = pr(a); tb = pr(b) if sbr < 8 else None
        exp = [va + vb, va - vb, va * vb, va / vb][realize(op)]
    if kind == 0:
        if op == 0: r = a + b
        elif op == 1: r = a - b
        elif op == 2: r = a * b
        else: r = a / b
        if pr(a) != ta: return False
        if tb is not None and pr(b) != tb: return False
    else:
        if op == 0: a += b
        elif op == 1: a -= b
        elif op == 2: a *= b
        else: a /= b
        r = a
    text = pr(r)
    with NoTracing():
        q = P.parse(realize(text), models.NumberExpr)
        ok = q.value == exp and r.value == exp
    return ok
