import io, copy, decimal, datetime, traceback
from autobean_refactor import parser as pl, models, printer, token_store as ts
P = pl.Parser()
D = decimal.Decimal
def pr(m): return printer.print_model(m, io.StringIO()).getvalue()
def sec(t): print('\n===', t)

sec('C03/C06 two values assigned to slice at index 0 of non-empty list')
n = P.parse('2000-01-01 note Assets:Foo "n" #a ^b', models.Note)
n.raw_tags_links[0:0] = [models.Tag.from_value('x'), models.Tag.from_value('y')]
print(repr(pr(n)))
o = P.parse('2000-01-01 open Assets:Foo USD', models.Open)
o.raw_currencies[0:0] = [models.Currency.from_value('AAA'), models.Currency.from_value('BBB')]
print(repr(pr(o)))

sec('C05 extend leaves child on stale store')
f = P.parse('2000-01-01 *\n    Assets:A  1 USD\n', models.File)
t = f.raw_directives[0]
p = P.parse('    Assets:B  2 USD', models.Posting)
t.raw_postings_with_comments.extend([p])
print(p.token_store is f.token_store, repr(pr(f)))
p.account = 'Assets:Changed'
print(repr(pr(f)))

sec('C08 value setter does not maintain sizes')
f = P.parse('option "a" "b"\n2000-01-01 open Assets:Foo\n', models.File)
opt = f.raw_directives[0]
opt.raw_key.value = 'a\nlonger'
text = pr(f); tok = f.raw_directives[1].raw_date
off = text.index('2000'); print(f.token_store.get_position(tok), (text[:off].count('\n'), off - text[:off].rfind('\n') - 1))

sec('C10 raw[-1] = x after filtered view read')
f = P.parse('2000-01-01 *\n    Assets:A  1 USD\n    ; c\n    Assets:B  2 USD\n', models.File, auto_claim_comments=False)
t = f.raw_directives[0]; t.raw_postings_with_comments.claim_interleaving_comments()
raw = t.raw_postings_with_comments; flt = t.raw_postings; print([type(x).__name__ for x in raw], len(list(flt)))
raw[-1] = P.parse('    Assets:N  9 USD', models.Posting)
print([x.account for x in flt], [getattr(x,'account',None) for x in raw])

sec('C12 CR CR LF / form feed in block comment')
for s in ['; a\r\r\n; b\n', '; a\x0cb\n', '; a\x85b\n', '; a b\n']:
    try: P.parse(s, models.File); print(repr(s), 'ok')
    except Exception as e: print(repr(s), type(e).__name__, str(e)[:60])

sec('C12 number small')
nn = models.Number.from_raw_text('0.0000001'); print(repr(models.Number._format_value(nn.value)))

sec('C13 5 * posting.raw_number raises and leaves parens')
f = P.parse('2000-01-01 *\n    Assets:A  1+2 USD\n', models.File)
po = f.raw_directives[0].raw_postings[0]
try:
    r = 5 * po.raw_number; print('no raise', repr(pr(r)))
except Exception as e: print(type(e).__name__, e)
print(repr(pr(f)))

sec('C19 slice assignment containing attached node deletes first')
f = P.parse('2000-01-01 note Assets:Foo "n" #a #b #c\n2000-01-02 note Assets:Foo "n" #z\n', models.File)
n1, n2 = f.raw_directives
try:
    n1.raw_tags_links[0:2] = [models.Tag.from_value('x'), n2.raw_tags_links[0]]
except Exception as e: print(type(e).__name__, e)
print(repr(pr(f)))

sec('C19 rejected raw_text already replaced')
f = P.parse('2000-01-01 open Assets:Foo\n', models.File)
d = f.raw_directives[0].raw_date
try: d.raw_text = 'garbage'
except Exception as e: print(type(e).__name__, e)
print(repr(pr(f)), d.value)

sec('C09 cost')
po = P.parse('    Assets:A  1 XX {1}', models.Posting)
po.cost.currency = 'CAD'; po.cost.number_total = D(5); print(repr(pr(po)), po.cost.number_per, po.cost.number_total)
