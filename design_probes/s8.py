from autobean_refactor import models
ES = models.EscapedString
MAXU = 0x10FFFF
def mk(cs):
    return ''.join(chr(c) for c in cs)

def es3(c0: int, c1: int, c2: int) -> bool:
    """
    pre: 0 <= c0 <= 0x10FFFF and 0 <= c1 <= 0x10FFFF and 0 <= c2 <= 0x10FFFF
    post: _
    """
    v = chr(c0) + chr(c1) + chr(c2)
    t = ES.from_value(v)
    return t.value == v and ES.from_raw_text(t.raw_text).value == v and t.raw_text[0] == '"' and t.raw_text[-1] == '"'

def bc3(c0: int, c1: int, c2: int) -> bool:
    """
    pre: 0 <= c0 <= 0x10FFFF and 0 <= c1 <= 0x10FFFF and 0 <= c2 <= 0x10FFFF
    post: _
    """
    v = chr(c0) + chr(c1) + chr(c2)
    t = models.BlockComment.from_value(v)
    return t.value == v and models.BlockComment.from_raw_text(t.raw_text).value == v

def tag3(c0: int, c1: int, c2: int) -> bool:
    """
    pre: 0 <= c0 <= 0x10FFFF and 0 <= c1 <= 0x10FFFF and 0 <= c2 <= 0x10FFFF
    post: _
    """
    v = chr(c0) + chr(c1) + chr(c2)
    t = models.Tag.from_value(v)
    k = models.MetaKey.from_value(v)
    return models.Tag.from_raw_text(t.raw_text).value == v and models.MetaKey.from_raw_text(k.raw_text).value == v
