import sys
from crosshair import realize
def c1(v: str) -> bool:
    """
    pre: len(v) == 1
    post: _
    """
    r = '"' + v + '"'
    return r[1:len(r)-1] == v

def c2(v: str) -> bool:
    """
    pre: len(v) == 1
    post: _
    """
    r = '"' + v + '"'
    return r[:-1] == '"' + v

def c3(v: str) -> bool:
    """
    pre: len(v) == 1
    post: _
    """
    r = '"' + v + '"'
    return r[1:] == v + '"'

def c4(v: str) -> bool:
    """
    pre: len(v) == 1
    post: _
    """
    r = '"' + v + '"'
    s = r[1:-1]
    print(len(s), repr(realize(s)), repr(realize(v)), type(s), file=sys.stderr)
    return len(s) == 1

def c5(v: str) -> bool:
    """
    pre: len(v) == 1
    post: _
    """
    r = v + '"'
    s = r[:-1]
    return s == v
