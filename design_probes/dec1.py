import re, decimal, sys
from symre import SymPattern
from autobean_refactor import models, parser as pl
P = pl.Parser()
NUM = [t for t in P._lark.parser.lexer_conf.terminals if t.name == 'NUMBER'][0].pattern.to_regexp()
NUM_SP = SymPattern(NUM)

def full(sp, s):
    r = sp.match_end(s, 0)
    return r is not None and r[0] == len(s)

def num7(d0: int, d1: int, d2: int, d3: int, d4: int, d5: int, d6: int) -> bool:
    """
    pre: all(48 <= d <= 57 for d in (d0, d1, d2, d3, d4, d5, d6))
    post: _
    """
    s = '0.' + chr(d0) + chr(d1) + chr(d2) + chr(d3) + chr(d4) + chr(d5) + chr(d6)
    t = models.Number.from_raw_text(s)
    r = models.Number._format_value(t.value)
    return full(NUM_SP, r)
