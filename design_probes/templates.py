from autobean_refactor import parser as pl, models
P = pl.Parser()
T = {
 'Option': ('option "title" "x"', 'option "title" "x" ; ic'),
 'Include': ('include "a.bean"',),
 'Plugin': ('plugin "p"', 'plugin "p" "cfg"'),
 'Pushtag': ('pushtag #t',), 'Poptag': ('poptag #t',),
 'Pushmeta': ('pushmeta kk: 1', 'pushmeta kk:'), 'Popmeta': ('popmeta kk:',),
 'IgnoredLine': ('* heading',),
 'Balance': ('2000-01-01 balance Assets:A 1+2 ~ 0.01 USD ; ic\n  kk: "v"', '2000-01-01 balance Assets:A 1 USD'),
 'Close': ('2000-01-01 close Assets:A\n  kk: 1\n  ; c\n  k2: TRUE',),
 'Commodity': ('2000-01-01 commodity USD',),
 'Pad': ('2000-01-01 pad Assets:A Equity:B',),
 'Event': ('2000-01-01 event "a" "b"',),
 'Query': ('2000-01-01 query "a" "b"',),
 'Price': ('2000-01-01 price USD 1.5 EUR',),
 'Note': ('2000-01-01 note Assets:A "n" #a ^b #c',),
 'Document': ('2000-01-01 document Assets:A "p" ^l',),
 'Open': ('2000-01-01 open Assets:A USD, EUR "STRICT"', '2000-01-01 open Assets:A'),
 'Custom': ('2000-01-01 custom "t" "s" 2000-01-02 TRUE 1 USD 2 Assets:A',),
 'Transaction': (
   '2000-01-01 * "p" "n" #t ^l ; ic\n  kk: 1\n  ! Assets:A  1 USD {2 EUR, 2000-01-02, "lb", *} @ 3 GBP ; pic\n    mm: "x"\n  ; between\n  Assets:B',
   '2000-01-01 txn\n  Assets:A  -1 USD {{2 EUR}} @@ 3 GBP\n  Assets:B  1 USD',
   '2000-01-01 * "n"\r\n  Assets:A',
 ),
 'Posting': ('  Assets:A  1 USD {1 # 2 EUR} @ 3 GBP ; c\n    kk: 1', '  Assets:A'),
 'MetaItem': ('  kk: Assets:A', '  kk:', '  kk: NULL ; c'),
 'CostSpec': ('{}', '{{}}', '{1}', '{{1}}', '{USD}', '{{USD}}', '{1 USD}', '{{1 USD}}', '{1 # 2 USD}', '{# 2 USD}', '{1 # USD}', '{2000-01-01, "l", *}', '{1 USD, 2000-01-01, "l"}', '{{1 USD, *}}'),
 'NumberExpr': ('2', '2+3', '2 * 3', '-2', '(2+3)', '2-3*5', '7/2 - 1', '-(2+3)', '+ 2'),
 'Amount': ('1 USD',), 'Tolerance': ('~ 0.1',), 'UnitPrice': ('@ 1 USD', '@', '@ USD'), 'TotalPrice': ('@@ 1 USD',),
 'CompoundAmount': ('1 # 2 USD',),
 'File': ('; head\n\n2000-01-01 open Assets:A\n; tr\n\n; alone\n\n* ign\n2000-01-02 *\n  Assets:A  1 USD\n  Assets:B\n', '', '\n', '; only'),
}
bad = 0
for name, texts in T.items():
    cls = getattr(models, name)
    for t in texts:
        for acc in (True, False):
            try:
                m = P.parse(t, cls, auto_claim_comments=acc)
                assert ''.join(x.raw_text for x in m.tokens) == t
            except Exception as e:
                bad += 1; print('FAIL', name, repr(t), type(e).__name__, str(e)[:80].replace('\n',' '))
print('classes', len(T), 'texts', sum(len(v) for v in T.values()), 'bad', bad)
missing = sorted(set(c.__name__ for c in models.TREE_MODELS.values()) - set(T))
print('not covered:', missing)
