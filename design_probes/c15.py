import io, decimal, datetime
from crosshair.tracers import NoTracing
from crosshair import realize
from autobean_refactor import parser as parser_lib, models, printer
P = parser_lib.Parser()
D = decimal.Decimal
D1, D2, D3, DM3, DM1 = D(1), D(2), D(3), D(-3), D(-1)
def pr(m):
    return printer.print_model(m, io.StringIO()).getvalue()

def posting(has_num: bool, has_cur: bool, has_flag: bool, has_cost: bool, has_price: bool, has_ic: bool, has_meta: bool, has_lc: bool, has_tc: bool, neg: bool) -> bool:
    """
    post: _
    """
    cost = models.CostSpec.from_value(D1, None, 'USD') if has_cost else None
    price = models.UnitPrice.from_value(D2, 'EUR') if has_price else None
    p = models.Posting.from_value(
        'Assets:A', (DM3 if neg else D3) if has_num else None, 'XX' if has_cur else None,
        flag='!' if has_flag else None, cost=cost, price=price,
        inline_comment='ic' if has_ic else None,
        meta={'kk': 'v', 'k2': DM1} if has_meta else None,
        leading_comment='lc' if has_lc else None, trailing_comment='tc' if has_tc else None)
    text = pr(p)
    with NoTracing():
        q = P.parse(realize(text), models.Posting)
    return (q.account == p.account and q.number == p.number and q.currency == p.currency and q.flag == p.flag
            and (q.cost is None) == (p.cost is None) and (q.price is None) == (p.price is None)
            and q.inline_comment == p.inline_comment and q.leading_comment == p.leading_comment
            and q.trailing_comment == p.trailing_comment and dict(q.meta) == dict(p.meta) and pr(q) == text)
