import io
from crosshair.tracers import NoTracing
from autobean_refactor import parser as parser_lib, models, printer
P = parser_lib.Parser()
def pr(m):
    return printer.print_model(m, io.StringIO()).getvalue()
TXT = '2000-01-01 open Assets:Foo\n\n\t\n\n2000-01-02 close Assets:Foo ; c\n'
WS = [' ', '\t', '\r', '\n']
def spacing(which: int, side: bool, w0: int, w1: int, w2: int) -> bool:
    """
    pre: 0 <= which < 6
    pre: 0 <= w0 < 4 and 0 <= w1 < 4 and 0 <= w2 < 4
    post: _
    """
    with NoTracing():
        f = P.parse(TXT, models.File)
    o, c = f.raw_directives
    m = [o, c, o.raw_account, c.raw_date, c.raw_account, c.raw_inline_comment][which]
    new = WS[w0] + WS[w1] + WS[w2]
    before = pr(f)
    old = m.spacing_before if side else m.spacing_after
    if side: m.spacing_before = new
    else: m.spacing_after = new
    after = pr(f)
    strip = lambda s: ''.join(ch for ch in s if ch not in ' \t\r\n')
    if strip(before) != strip(after): return False
    if len(after) - len(before) != len(new) - len(old): return False
    got = m.spacing_before if side else m.spacing_after
    return True
