import re, sys
from crosshair import realize
from crosshair.tracers import NoTracing

def b1(v: str) -> bool:
    """
    pre: len(v) == 1
    post: _
    """
    r = '"' + v + '"'
    return r[1:-1] == v

def b2(v: str) -> bool:
    """
    pre: len(v) == 1
    post: _
    """
    e = re.sub(r'[\\"]', lambda c: '\\' + c.group(0), v)
    return e[0:] == e

def b3(v: str) -> bool:
    """
    pre: len(v) == 1
    post: _
    """
    e = re.sub(r'[\\"]', lambda c: '\\' + c.group(0), v)
    r = '"' + e + '"'
    return r[1:-1] == e

def b4(v: str) -> bool:
    """
    pre: len(v) == 1
    post: _
    """
    e = re.sub(r'[\\"]', lambda c: '\\' + c.group(0), v)
    r = '"' + e + '"'
    return r == '"' + e + '"'

def b5(v: str) -> bool:
    """
    pre: len(v) == 1
    post: _
    """
    e = re.sub(r'[\\"]', lambda c: '\\' + c.group(0), v)
    r = '"' + e + '"'
    return len(r) == len(e) + 2 and r[1] == e[0] and r[-2] == e[-1]
