import re, decimal, sys
import symre
from crosshair.libimpl import decimallib
from dec1 import *
_PAT = r"""
    (?P<sign>[-+])?
    (
        (?=\d|\.\d)
        (?P<int>\d*)
        (\.(?P<frac>\d*))?
        (E(?P<exp>[-+]?\d+))?
    |
        Inf(inity)?
    |
        (?P<signal>s)?
        NaN
        (?P<diag>\d*)
    )
    \Z
"""
decimallib._parser = symre.sym_match_fn(_PAT, re.VERBOSE | re.IGNORECASE)

def num7b(d0: int, d1: int, d2: int, d3: int, d4: int, d5: int, d6: int) -> bool:
    """
    pre: all(48 <= d <= 57 for d in (d0, d1, d2, d3, d4, d5, d6))
    post: _
    """
    s = '0.' + chr(d0) + chr(d1) + chr(d2) + chr(d3) + chr(d4) + chr(d5) + chr(d6)
    t = models.Number.from_raw_text(s)
    r = models.Number._format_value(t.value)
    return full(NUM_SP, r)

def num3b(d0: int, d1: int, d2: int) -> bool:
    """
    pre: all(48 <= d <= 57 for d in (d0, d1, d2))
    post: _
    """
    s = chr(d0) + '.' + chr(d1) + chr(d2)
    t = models.Number.from_raw_text(s)
    r = models.Number._format_value(t.value)
    return full(NUM_SP, r) and models.Number.from_raw_text(r).value == t.value
