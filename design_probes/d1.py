import io, copy
from crosshair.tracers import NoTracing
from crosshair import realize
from autobean_refactor import parser as parser_lib, models, printer
P = parser_lib.Parser()
def pr(m):
    return printer.print_model(m, io.StringIO()).getvalue()
def parse_nt(text, target):
    with NoTracing():
        return P.parse(text, target)

TXN = '''\
2000-01-01 *
    Assets:A  1 USD
    ; c1
    Assets:B  2 USD
    ; c2
    Assets:C  3 USD
'''

def views(op: int, i: int, j: int) -> bool:
    """
    pre: 0 <= op <= 3
    pre: -7 <= i <= 7 and -7 <= j <= 7
    post: _
    """
    txn = parse_nt(TXN, models.File).raw_directives[0]
    raw = txn.raw_postings_with_comments
    flt = txn.raw_postings
    _ = list(flt)  # make sure filtered view is materialised
    ref = list(raw)
    with NoTracing():
        new = P.parse('    Assets:N  9 USD', models.Posting)
    try:
        if op == 0:
            raw[i] = new
        elif op == 1:
            raw.insert(i, new)
        elif op == 2:
            raw.pop(i)
        else:
            del raw[i:j]
    except IndexError:
        try:
            if op == 0: ref[i] = new
            elif op == 2: ref.pop(i)
            return False
        except IndexError:
            return True
    if op == 0: ref[i] = new
    elif op == 1: ref.insert(i, new)
    elif op == 2: ref.pop(i)
    else: del ref[i:j]
    a = [id(x) for x in raw]
    b = [id(x) for x in ref]
    c = [id(x) for x in flt]
    d = [id(x) for x in ref if isinstance(x, models.Posting)]
    return a == b and c == d
