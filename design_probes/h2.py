import io
from crosshair.tracers import NoTracing
from crosshair import realize
from autobean_refactor import parser as parser_lib, models, printer
P = parser_lib.Parser()
def pr(m): return printer.print_model(m, io.StringIO()).getvalue()
TXT = '2000-01-01 open Assets:A\n2000-01-02 note Assets:Foo "n" #a ^b #c\n  kk: 1\n2000-01-03 close Assets:A\n'

def apply(w, ref, op, i, j, donors):
    # returns False if both raise the same, True if both succeed
    try:
        if op == 0: ref.insert(i, donors[0])
        elif op == 1: ref.pop(i)
        elif op == 2: ref[i] = donors[0]
        elif op == 3: del ref[i]
        else: ref.append(donors[0])
        ok = True
    except IndexError:
        ok = False
    try:
        if op == 0: w.insert(i, donors[0])
        elif op == 1: w.pop(i)
        elif op == 2: w[i] = donors[0]
        elif op == 3: del w[i]
        else: w.append(donors[0])
        ok2 = True
    except IndexError:
        ok2 = False
    assert ok == ok2
    return ok

def hist2(op1: int, i1: int, op2: int, i2: int) -> bool:
    """
    pre: 0 <= op1 <= 4 and 0 <= op2 <= 4
    post: _
    """
    with NoTracing():
        f = P.parse(TXT, models.File)
        d1 = [models.Tag.from_value('x')]; d2 = [models.Link.from_value('y')]
    note = f.raw_directives[1]
    w = note.raw_tags_links
    tags = note.tags; links = note.links
    _ = list(tags), list(links)
    ref = list(w)
    apply(w, ref, op1, i1, 0, d1)
    apply(w, ref, op2, i2, 0, d2)
    assert [id(x) for x in w] == [id(x) for x in ref]
    assert list(tags) == [x.value for x in ref if isinstance(x, models.Tag)]
    assert list(links) == [x.value for x in ref if isinstance(x, models.Link)]
    text = pr(f)
    with NoTracing():
        g = P.parse(realize(text), models.File)
        n2 = g.raw_directives[1]
        ok = [(type(x).__name__, x.value) for x in n2.raw_tags_links] == [(type(x).__name__, x.value) for x in ref]
    return ok
