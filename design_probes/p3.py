import io, copy
from crosshair.tracers import NoTracing
from crosshair import realize
from autobean_refactor import parser as parser_lib, models, printer
from p2 import P, TXT, pr

def parse_nt(text, target):
    with NoTracing():
        return P.parse(text, target)

def ops(i: int, j: int) -> bool:
    """
    pre: -10 <= i <= 10
    pre: -10 <= j <= 10
    post: _
    """
    f = parse_nt(TXT, models.File)
    txn = f.raw_directives_with_comments[0]
    ps = txn.raw_postings_with_comments
    ref = list(ps)
    before = pr(f)
    try:
        x = ps.pop(i)
    except IndexError:
        assert not (-len(ref) <= i < len(ref))
        assert pr(f) == before
        return True
    y = ref.pop(i)
    assert x is y
    ps.insert(j, x)
    ref.insert(j, x)
    assert list(ps) == ref
    assert [id(a) for a in ps] == [id(a) for a in ref]
    out = pr(f)
    with NoTracing():
        g = P.parse(realize(out), models.File)
    return len(g.raw_directives_with_comments[0].raw_postings_with_comments) == 3
