import io, sys
import lk1
from lk1 import *
from lark.parsers import lalr_parser_state, lalr_interactive_parser
_orig_feed = lalr_parser_state.ParserState.feed_token
def _feed(self, token, is_end=False):
    with NoTracing():
        return _orig_feed(self, token, is_end)
lalr_parser_state.ParserState.feed_token = _feed
_orig_choices = lalr_interactive_parser.InteractiveParser.choices
def _choices(self):
    with NoTracing():
        return _orig_choices(self)
lalr_interactive_parser.InteractiveParser.choices = _choices

def hole2(c0: int, c1: int, acc: bool) -> bool:
    """
    pre: 0 <= c0 <= 0x10FFFF and 0 <= c1 <= 0x10FFFF
    post: _
    """
    s = '2000-01-01 *' + chr(c0) + chr(c1) + '  Assets:A\n'
    try:
        f = P.parse(s, models.File, auto_claim_comments=acc)
    except Exception as e:
        if type(e).__module__.startswith('lark'):
            return True   # rejected by the grammar
        raise
    out = pr(f)
    return out == s and ''.join(t.raw_text for t in f.token_store) == s

def rt3b(c0: int, c1: int, c2: int) -> bool:
    """
    pre: 0 <= c0 <= 0x10FFFF and 0 <= c1 <= 0x10FFFF and 0 <= c2 <= 0x10FFFF
    pre: c1 != 11 and c1 != 12 and c2 != 11 and c2 != 12 and c1 != 0x1c and c1 != 0x1d and c1 != 0x1e and c1 != 0x85 and c1 != 0x2028 and c1 != 0x2029
    pre: c2 != 0x1c and c2 != 0x1d and c2 != 0x1e and c2 != 0x85 and c2 != 0x2028 and c2 != 0x2029
    post: _
    """
    return lk1.rt3.__wrapped__(c0, c1, c2) if hasattr(lk1.rt3, '__wrapped__') else lk1.rt3(c0, c1, c2)

def hole1(c0: int) -> bool:
    """
    pre: 0 <= c0 <= 0x10FFFF
    post: _
    """
    s = '2000-01-01 *\n' + chr(c0) + ' Assets:A\n'
    try:
        f = P.parse(s, models.File, auto_claim_comments=True)
    except Exception as e:
        if type(e).__module__.startswith('lark'):
            return True   # rejected by the grammar
        raise
    out = pr(f)
    return out == s and ''.join(t.raw_text for t in f.token_store) == s
