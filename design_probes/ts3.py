from autobean_refactor import token_store as ts
from ts1 import _mk, TEXTS

def _invariant(store, ref):
    assert store._len == len(ref)
    pos = 0
    for bi, b in enumerate(store._blocks):
        assert b.index == bi
        assert b.store is store
        assert len(b.tokens) > 0 or len(store._blocks) == 1
        size = ts.Position(); lni = -1
        for j, t in enumerate(b.tokens):
            assert t is ref[pos]
            assert t.store_handle is not None and t.store_handle.block is b and t.store_handle.index == j
            size += t.size
            if t.size.line: lni = j
            pos += 1
        assert (b.size.line, b.size.column) == (size.line, size.column)
        assert b.last_newline_index == lni
    assert pos == len(ref)

def _api(store, ref):
    got = list(store)
    assert len(got) == len(ref)
    text = ''
    for i, t in enumerate(ref):
        assert got[i] is t
        assert store.get_index(t) == i
        assert store.get_prev(t) is (ref[i-1] if i else None)
        assert store.get_next(t) is (ref[i+1] if i + 1 < len(ref) else None)
        p = store.get_position(t)
        assert (p.line, p.column) == (text.count('\n'), len(text) - text.rfind('\n') - 1)
        text += t.raw_text
    assert store.get_first() is (ref[0] if ref else None)
    assert store.get_last() is (ref[-1] if ref else None)

def build(lf, sizes, tx):
    _mk(lf)
    store = ts.TokenStore()
    ref = []
    blocks = []
    c = 0
    for bi, s in enumerate(sizes):
        toks = []
        for _ in range(s):
            toks.append(ts.Token(TEXTS[(c * 3 + tx) % 4])); c += 1
        ref.extend(toks)
        blocks.append(ts._StoreBlock.from_tokens(toks, store, bi))
    store._blocks[:] = blocks
    store._len = len(ref)
    return store, ref

def step3(s0: int, s1: int, s2: int, a: int, b: int, k: int) -> bool:
    """
    pre: 2 <= s0 <= 3 and 2 <= s1 <= 3 and 2 <= s2 <= 3
    pre: 0 <= a <= b <= s0 + s1 + s2
    pre: 0 <= k <= 2
    post: _
    """
    lf = 2; tx = 1
    store, ref = build(lf, [s0, s1, s2], tx)
    n = len(ref)
    new = [ts.Token(TEXTS[(i + tx) % 4]) for i in range(k)]
    if a == b:
        if a < n: store.insert_before(ref[a], new)
        else: store.insert_after(ref[n-1], new)
    else:
        store.splice(new, ref[a], ref[b-1])
    removed = [ref[i] for i in range(a, b)]
    ref[a:b] = new
    _invariant(store, ref)
    _api(store, ref)
    for t in removed:
        assert t.store_handle is None
    return True
