#!/bin/sh
# thorough-only cells of the families added in the third session, each once without budget truncation
HERE=$(cd "$(dirname "$0")/.." && pwd)
cd $HERE; mkdir -p seedlogs
run() { P=$1; PAT=$2; START=$(date +%s); ./check $P --tier thorough --budget 200000 --no-evidence --only "$PAT" > seedlogs/thnew_$P.log 2>&1; echo "$P [$PAT] exit=$? wall=$(( $(date +%s) - START ))s $(grep -o 'cells=[0-9]* confirmed=[0-9]* violations=[0-9]* known=[0-9]* inconclusive=[0-9]*' seedlogs/thnew_$P.log | tail -1)" >> seedlogs/thnew.txt; }
run C03 'slot.*_lf2'
run C05 'slot.*_lf2'
run C06 'slot.*_lf2|inner_edit'
run C19 'slot.*_lf2'
run C07 'hist2'
run C13 'inner_edit'
run C17 'spacingtext'
run C18 'reind'
run C14 'layout_._n3_k2'
run C16 'content_nofinal_p30'
cat seedlogs/thnew.txt
