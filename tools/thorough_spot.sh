#!/bin/sh
# thorough tier of a few properties with a reduced start budget (triage of thorough-only cells after oracle changes)
HERE=$(cd "$(dirname "$0")/.." && pwd)
cd $HERE; mkdir -p seedlogs
for P in "$@"; do
  START=$(date +%s)
  ./check $P --tier thorough --budget ${SPOT_BUDGET:-1200} --no-evidence > seedlogs/spot_$P.log 2>&1
  echo "$P exit=$? wall=$(( $(date +%s) - START ))s $(grep -o 'cells=[0-9]* confirmed=[0-9]* violations=[0-9]* known=[0-9]* inconclusive=[0-9]* not_run=[0-9]*' seedlogs/spot_$P.log | tail -1)" >> seedlogs/spot.txt
done
cat seedlogs/spot.txt
