"""Update seeded/<id>/meta.json (detected_by) and seeded/RESULTS.md from tools/seed_eval.sh output lines.
usage: seed_results.py <file with 'seed=.. check=.. tier=.. exit=.. violations=..' lines> [...]"""
import glob, json, os, re, sys
rows = {}
for fn in sys.argv[1:]:
    lines = open(fn).read().splitlines()
    for k, line in enumerate(lines):
        m = re.match(r'seed=(\S+) check=(\S+) tier=(\S+) exit=(\d+) violations=(\d+)', line)
        if not m:
            continue
        sid, chk, tier, rc, nv = m.groups()
        cells = []
        for l2 in (lines[k + 1:k + 4] if rc == '1' else []):
            c = re.match(r'\s+cell (\S+) args', l2)
            if c:
                cells.append(c.group(1))
        rows.setdefault(sid, {})[(chk, tier)] = {'exit': int(rc), 'violations': int(nv), 'cells': cells}
out = ['# Seeded changes: which checks catch which', '',
       'Each change was produced by an independent sub-agent (property text + scratch worktree only), passes the full test suite,',
       'and was confirmed by me on /repo HEAD (`tools/seed_reconfirm.sh`). Checks were run on a scratch worktree with the patch',
       'applied (`tools/seed_eval.sh <id> <PROP> <tier>`). exit 1 = VIOLATION reported (caught); exit 0 = missed; exit 3 = harness could not decide.',
       'Tier `quick` = the whole registered quick command of the property; `quick-targeted-cells` = the same command restricted with --only to the cell families aimed at the change (run while the machine was busy).', '',
       '| seed | breaks | check (tier) | result | violating cells (first 3) |', '|---|---|---|---|---|']
for d in sorted(glob.glob('/verif/seeded/*/')):
    sid = os.path.basename(d.rstrip('/'))
    mp = os.path.join(d, 'meta.json')
    if not os.path.exists(mp):
        continue
    meta = json.load(open(mp))
    res = rows.get(sid, {})
    det = []
    for (chk, tier), r in sorted(res.items()):
        verdict = 'caught (%d violations)' % r['violations'] if r['exit'] == 1 else ('MISSED' if r['exit'] == 0 else 'undecided (exit %d)' % r['exit'])
        out.append('| %s | %s | %s (%s) | %s | %s |' % (sid, meta['breaks_property'], chk, tier, verdict, ', '.join(r['cells'])))
        if r['exit'] == 1:
            det.append({'check': chk, 'tier': tier, 'violations': r['violations'], 'cells': r['cells']})
    if not res:      # evaluated in an earlier session: keep what meta.json recorded
        for r in (meta.get('detected_by') or []):
            out.append('| %s | %s | %s (%s) | caught (%d violations) | %s |' % (sid, meta['breaks_property'], r['check'], r['tier'], r['violations'], ', '.join(r['cells'])))
        for r in (meta.get('missed_by') or []):
            out.append('| %s | %s | %s (%s) | MISSED | |' % (sid, meta['breaks_property'], r['check'], r['tier']))
    if res:
        meta['missed_by'] = [{'check': c, 'tier': t} for (c, t), r in sorted(res.items()) if r['exit'] == 0]
        meta['detected_by'] = det
        meta['what_i_ran'] = ['tools/seed_reconfirm.sh ' + sid] + ['tools/seed_eval.sh %s %s %s' % (sid, c, t) for (c, t) in sorted(res)]
        json.dump(meta, open(mp, 'w'), indent=1)
open('/verif/seeded/RESULTS.md', 'w').write('\n'.join(out) + '\n')
print('\n'.join(out[8:]))
