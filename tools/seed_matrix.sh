#!/bin/sh
# runs every stored seed against its target property's quick check; appends to /tmp/seed_matrix.txt
: > /tmp/seed_matrix.txt
for d in /verif/seeded/*/; do
  ID=$(basename $d); PROP=${ID%%-*}
  /verif/tools/seed_eval.sh $ID $PROP quick >> /tmp/seed_matrix.txt 2>&1
done
