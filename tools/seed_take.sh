#!/bin/sh
# usage: seed_take.sh <worktree> <i> <PROP> <suffix>  -- confirm mutant i of an agent's worktree and store it as seeded/<PROP>-<suffix> when confirmed
WT=$1; I=$2; PROP=$3; SUF=$4
HERE=$(cd "$(dirname "$0")/.." && pwd)
LINE=$(sh $HERE/tools/seed_confirm.sh $WT $I | head -1)
echo "$PROP-$SUF: $LINE"
case "$LINE" in
  "clean_demo_exit=0 mutant_demo_exit=1 suite='1661 passed, 38 skipped"*)
    python3 $HERE/tools/seed_store.py $PROP $I $WT "$LINE" $SUF "independent sub-agent (round 5-6: only the property text, a list of already used sites and a scratch worktree of /repo HEAD $(git -C /repo rev-parse --short HEAD))" ;;
  *) echo "  NOT confirmed - not stored" ;;
esac
