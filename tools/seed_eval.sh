#!/bin/sh
# usage: seed_eval.sh <seed id e.g. C07-1> <PROP> [tier] [extra args]  -- runs ./check PROP against a scratch worktree with the seeded patch applied
# (works from /verif or from a `vp run` snapshot: everything is relative to this script)
ID=$1; PROP=$2; TIER=${3:-quick}; shift; shift; shift
HERE=$(cd "$(dirname "$0")/.." && pwd)
WT=${SEED_WT_PREFIX:-/tmp/seedrun}_$ID
LOGDIR=${SEED_LOGDIR:-/tmp}
git -C /repo worktree remove --force $WT >/dev/null 2>&1
git -C /repo worktree add -f --detach $WT HEAD -q || exit 2
git -C $WT apply $HERE/seeded/$ID/patch.diff || { echo "seed=$ID patch does not apply"; git -C /repo worktree remove --force $WT; exit 2; }
cd $HERE
SYMX_REPO=$WT ./check $PROP --tier $TIER --no-evidence --budget 100000 "$@" > $LOGDIR/seedrun_$ID.$PROP.log 2>&1
RC=$?
NV=$(grep -c '^VIOLATION' $LOGDIR/seedrun_$ID.$PROP.log)
echo "seed=$ID check=$PROP tier=$TIER exit=$RC violations=$NV $(grep -o 'wall=[0-9]*s' $LOGDIR/seedrun_$ID.$PROP.log | tail -1)"
grep -A2 '^VIOLATION' $LOGDIR/seedrun_$ID.$PROP.log | grep 'cell' | head -3
git -C /repo worktree remove --force $WT
