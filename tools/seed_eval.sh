#!/bin/sh
# usage: seed_eval.sh <seed id e.g. C07-1> <PROP> [tier] [extra args]  -- runs ./check PROP against a scratch worktree with the seeded patch applied
ID=$1; PROP=$2; TIER=${3:-quick}; shift; shift; shift
WT=/tmp/seedrun_$ID
git -C /repo worktree remove --force $WT >/dev/null 2>&1
git -C /repo worktree add -f --detach $WT HEAD -q || exit 2
git -C $WT apply /verif/seeded/$ID/patch.diff || { echo "patch does not apply"; exit 2; }
cd /verif
SYMX_REPO=$WT ./check $PROP --tier $TIER --no-evidence "$@" > /tmp/seedrun_$ID.$PROP.log 2>&1
RC=$?
NV=$(grep -c '^VIOLATION' /tmp/seedrun_$ID.$PROP.log)
echo "seed=$ID check=$PROP tier=$TIER exit=$RC violations=$NV $(grep -o 'wall=[0-9]*s' /tmp/seedrun_$ID.$PROP.log | tail -1)"
grep -A2 '^VIOLATION' /tmp/seedrun_$ID.$PROP.log | grep 'cell' | head -3
git -C /repo worktree remove --force $WT
