#!/bin/sh
# runs every thorough tier once without budget truncation (triage of thorough-only cells); logs to /tmp/thorough_<ID>.log
cd /verif
for P in C09 C17 C18 C11 C20 C04 C13 C02 C12 C07 C08 C14 C15 C19 C10 C03 C05 C06 C01; do
  START=$(date +%s)
  ./check $P --tier thorough --budget 200000 --no-evidence > /tmp/thorough_$P.log 2>&1
  echo "$P exit=$? wall=$(( $(date +%s) - START ))s $(grep -o 'cells=[0-9]* confirmed=[0-9]* violations=[0-9]* known=[0-9]* inconclusive=[0-9]*' /tmp/thorough_$P.log | tail -1)" >> /tmp/thorough_sweep.txt
done
