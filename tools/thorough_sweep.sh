#!/bin/sh
# runs every thorough tier once without budget truncation (triage of thorough-only cells); logs to <here>/seedlogs/thorough_<ID>.log
# usage: thorough_sweep.sh [PROP ...]   (works from /verif or a `vp run` snapshot)
HERE=$(cd "$(dirname "$0")/.." && pwd)
cd $HERE; mkdir -p seedlogs
[ $# -gt 0 ] || set -- C09 C17 C18 C11 C20 C04 C13 C02 C12 C07 C08 C14 C15 C19 C10 C03 C05 C06 C01 C16
for P in "$@"; do
  START=$(date +%s)
  ./check $P --tier thorough --budget 200000 --no-evidence > seedlogs/thorough_$P.log 2>&1
  echo "$P exit=$? wall=$(( $(date +%s) - START ))s $(grep -o 'cells=[0-9]* confirmed=[0-9]* violations=[0-9]* known=[0-9]* inconclusive=[0-9]*' seedlogs/thorough_$P.log | tail -1)" >> seedlogs/thorough_sweep.txt
done
cat seedlogs/thorough_sweep.txt
