#!/bin/sh
# usage: seed_batch.sh <seed id> ...   -- evaluates each seed against the quick tier of the property it was written for; results in seedlogs/
HERE=$(cd "$(dirname "$0")/.." && pwd)
mkdir -p $HERE/seedlogs
export SEED_LOGDIR=$HERE/seedlogs
for id in "$@"; do
  P=${id%%-*}
  sh $HERE/tools/seed_eval.sh $id $P quick >> $HERE/seedlogs/SUMMARY.txt 2>&1
  tail -4 $HERE/seedlogs/SUMMARY.txt | grep "seed=$id"
done
