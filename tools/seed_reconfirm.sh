#!/bin/sh
# usage: seed_reconfirm.sh <seed id>  -- confirm a stored seed against /repo's CURRENT HEAD in a scratch worktree
ID=$1
WT=/tmp/seedconf_$ID
git -C /repo worktree remove --force $WT >/dev/null 2>&1
git -C /repo worktree add -f --detach $WT HEAD -q || exit 2
mkdir -p $WT/OUT; cp /verif/seeded/$ID/demo.py $WT/OUT/demo.py
cd $WT
/venv/bin/python OUT/demo.py >/dev/null 2>&1; CLEAN=$?
if git apply /verif/seeded/$ID/patch.diff 2>/dev/null; then
  /venv/bin/python OUT/demo.py >/dev/null 2>&1; MUT=$?
  SUITE=$(/venv/bin/python -m pytest -q -p no:cacheprovider --benchmark-skip 2>&1 | tail -1)
else
  MUT=NA; SUITE="patch does not apply to HEAD"
fi
cd /; git -C /repo worktree remove --force $WT
echo "$ID head=$(git -C /repo rev-parse --short HEAD) clean_demo_exit=$CLEAN mutant_demo_exit=$MUT suite='$SUITE'"
