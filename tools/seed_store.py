"""Copy a confirmed agent mutant into /verif/seeded/<PROP>-<i>/ with meta.json.
usage: seed_store.py <PROP> <i> <worktree> "<confirm line>" [<name suffix, default i>] [<origin note>]"""
import json, os, shutil, sys
prop, i, wt, confirm = sys.argv[1:5]
suffix = sys.argv[5] if len(sys.argv) > 5 else i
origin = sys.argv[6] if len(sys.argv) > 6 else 'independent sub-agent given only the property text and a scratch worktree of /repo (HEAD 338493c)'
dst = '/verif/seeded/%s-%s' % (prop, suffix)
os.makedirs(dst, exist_ok=True)
shutil.copy(os.path.join(wt, 'OUT', 'patch%s.diff' % i), os.path.join(dst, 'patch.diff'))
shutil.copy(os.path.join(wt, 'OUT', 'demo%s.py' % i), os.path.join(dst, 'demo.py'))
notes = open(os.path.join(wt, 'OUT', 'notes%s.md' % i)).read()
open(os.path.join(dst, 'notes.md'), 'w').write(notes)
meta = {
    'id': '%s-%s' % (prop, suffix),
    'breaks_property': prop,
    'origin': origin,
    'needs_to_manifest': notes.strip().split('\n\n')[-1][:1200],
    'confirmed_by_me': {
        'how': 'tools/seed_confirm.sh <worktree> <i>: demo on clean tree, patch applied, demo again, full suite (--benchmark-skip), tree restored',
        'result': confirm,
    },
    'detected_by': None,
}
json.dump(meta, open(os.path.join(dst, 'meta.json'), 'w'), indent=1)
print(dst)
