#!/bin/sh
# usage: seed_confirm.sh <worktree> <i>   -- confirms mutant i of an agent's worktree: suite passes with patch, demo fails with / passes without
WT=$1; I=$2
cd "$WT" || exit 2
git checkout -q -- autobean_refactor
/venv/bin/python OUT/demo$I.py >/dev/null 2>&1; CLEAN=$?
git apply OUT/patch$I.diff || { echo "patch does not apply"; exit 2; }
/venv/bin/python OUT/demo$I.py >/tmp/demo_out_$$.txt 2>&1; MUT=$?
SUITE=$(/venv/bin/python -m pytest -q -p no:cacheprovider --benchmark-skip 2>&1 | tail -1)
git checkout -q -- autobean_refactor
echo "clean_demo_exit=$CLEAN mutant_demo_exit=$MUT suite='$SUITE'"
tail -2 /tmp/demo_out_$$.txt; rm -f /tmp/demo_out_$$.txt
