#!/bin/sh
# usage: seed_batch_par.sh <parallel streams> <seed id> ...  -- like seed_batch.sh, N seeds at a time (each check at SYMX_JOBS=16/N workers)
HERE=$(cd "$(dirname "$0")/.." && pwd)
N=$1; shift
mkdir -p $HERE/seedlogs
export SEED_LOGDIR=$HERE/seedlogs
export SYMX_JOBS=${SEED_JOBS:-$((16 / N + 2))}
sh $HERE/symx/boot.sh >/dev/null 2>&1
printf '%s\n' "$@" | xargs -P $N -I{} sh -c 'id={}; P=${id%%-*}; sh '$HERE'/tools/seed_eval.sh $id $P quick >> '$HERE'/seedlogs/SUMMARY.txt 2>&1'
cat $HERE/seedlogs/SUMMARY.txt
